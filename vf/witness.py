"""Native bounded leg: the executable contracts of /verif/witness run against the real crate
(path dependency on the checked tree) over an exhaustively enumerated small scope.

Roles: (1) bounded stand-in - labelled bounded, never counted as proved - for the functions the
deductive verifiers cannot take, including the case where a change moves code out of their reach;
(2) replay: a concrete failing input for a violation.  A VIOLATION it reports is a concrete execution
of the real code contradicting the property's oracle, so it can never be a false alarm of the
verifier; an OK proves nothing."""
import os
import re
import shutil
import subprocess
import time

VERIF = os.path.dirname(os.path.dirname(os.path.abspath(__file__)))
REPO = os.environ.get('VERIF_REPO', '/repo')
TARGET = os.path.join(VERIF, 'build', 'witness-target')

BOUNDS = {  # property -> (quick max, thorough max, description of the enumerated scope)
    'C01': (2, 3, 'all registration histories of length <= max (<= 3) over a pool of 24 types (recursive, mutually recursive, aliases, phantom, skipped parameter, bit sequence) in 3 API modes; retain on all registries of <= min(max,2) entries; builder scripts'),
    'C02': (2, 3, 'all registration histories of length <= max over the pool of 17 types in 3 API modes; image checked structurally against type_info()'),
    'C05': (2, 3, 'all registration histories of length <= max over the pool of 17 types (incl. nested aliases) in 3 API modes; evaluation counters'),
    'C06': (2, 2, 'about 80 portable types (every definition kind, ids across all compact size classes, unicode / empty strings) and 2-entry registries'),
    'C07': (2, 2, 'about 90 registries of 0..2 entries over every entry shape (every definition kind, ids across the compact size classes, unicode / empty strings): decode(encode(r)) == r, exact consumption with a 3-byte tail, pairwise distinct encodings'),
    'C08': (2, 2, 'about 130 registries of 0..3 entries over every entry shape (every definition kind with and without its optional members, ids in every order, enums of up to 300 variants): serde_json::to_value equals an independently built documented shape; from_str(to_string(r)) == r; from_value(to_value(r)) == r; agrees with the SCALE round trip'),
    'C10': (2, 3, 'all registries of <= max entries over all entry shapes (every definition kind, parameters present / skipped / mixed, two different ids inside one composite / one variant) x all filters'),
    'C11': (2, 3, 'all registration histories of length <= max; all pairs of pool types with one of 3 recursive roots registered in two orders'),
    'C12': (2, 3, 'all builder scripts of length <= max+1 over 21 near-duplicate values (differing in one leaf, only in the order of variants / fields / tuple members / parameters / docs, or only OUTSIDE the definition: path / docs), next_type_id, get'),
    'C14': (2, 2, 'resolve: ill-formed registries of 0..3 entries, ids 0..len+2 and the u32 extremes; memory: every byte position of the encodings of <= 120 bytes overwritten with the compact encodings of 100 000, 2^30 - 1 and u32::MAX, largest single allocation request <= 1 MiB + 1 KiB per input byte (counting allocator); decode: every truncation, 3 bit flips per byte and a byte insertion at every position of the encodings of ~18 registries (no panic, successful decodes re-encode to the consumed bytes); JSON (serde_json): every truncation, 9 byte substitutions, a deletion and an insertion at every position of the JSON text of the registries with <= 200 encoded bytes, plus oversized numbers, duplicate / unknown keys and 5000-deep nesting (no panic, accepted texts are registries that survive a JSON round trip)'),
    'C16': (2, 2, 'all pairs from a pool of 16 types (wrappers of wrappers, arrays of different length, PhantomData instantiations)'),
    'C17': (2, 2, 'all triples of 4 field kinds in named / unnamed / tuple position, variant builders, portable builders'),
    'C18': (4, 5, 'all strings of length <= max over a 14-symbol class-representative alphabet (one symbol per gap of the ASCII table around the identifier classes) plus every single ASCII character in head / tail / after-prefix position; all triples of 8 segments; Path::new / new_with_replace / Display'),
}


def run_witness(pid, tier, outdir, features=()):
    if pid not in BOUNDS:
        return None
    q, t, scope = BOUNDS[pid]
    mx = t if tier == 'thorough' else q
    src = os.path.join(outdir, 'witness-src' + ('-' + '-'.join(features) if features else ''))
    shutil.rmtree(src, ignore_errors=True)
    shutil.copytree(os.path.join(VERIF, 'witness'), src)
    p = os.path.join(src, 'Cargo.toml')
    s = open(p).read().replace('path = "/repo"', 'path = "%s"' % REPO)
    open(p, 'w').write(s)
    env = dict(os.environ, CARGO_NET_OFFLINE='true', CARGO_TARGET_DIR=TARGET + ('-' + '-'.join(features) if features else ''))
    cmd = ['cargo', 'build', '--release', '--offline', '--quiet']
    if features:
        cmd += ['--features', ','.join(features)]
    t0 = time.time()
    b = subprocess.run(cmd, cwd=src, env=env, stdout=subprocess.PIPE, stderr=subprocess.STDOUT, text=True)
    res = dict(property=pid, max=mx, scope=scope, features=list(features), cmd='(cd %s && %s && verif-witness %s %d)' % (src, ' '.join(cmd), pid, mx))
    if b.returncode != 0:
        res.update(status='undecided', reason='the executable contracts do not compile against this tree: ' + b.stdout[-600:], cases=0, nontrivial=0)
        return res
    exe = os.path.join(env['CARGO_TARGET_DIR'], 'release', 'verif-witness')
    try:
        r = subprocess.run([exe, pid, str(mx)], stdout=subprocess.PIPE, stderr=subprocess.STDOUT, text=True, timeout=900)
    except subprocess.TimeoutExpired:
        res.update(status='undecided', reason='timeout', cases=0, nontrivial=0)
        return res
    out = r.stdout.strip()
    res['wall_s'] = round(time.time() - t0, 1)
    m = re.search(r'OK cases=(\d+) nontrivial=(\d+)', out)
    if r.returncode == 0 and m:
        res.update(status='ok', cases=int(m.group(1)), nontrivial=int(m.group(2)))
    elif 'VIOLATION' in out:
        res.update(status='failed', cases=0, nontrivial=0, witness=out[out.index('VIOLATION') + 10:][:4000])
    else:
        # a panic inside the real code on an enumerated input is a concrete failing execution too
        res.update(status='failed' if 'panicked' in out else 'undecided', cases=0, nontrivial=0, witness=out[-3000:], reason=out[-600:])
    return res


# ---- C15: one program, one build per feature set, compare the printed encodings -------------------------------------------
C15_QUICK = ['', 'std', 'decode', 'std,serde', 'std,decode,serde,bit-vec,schema', 'docs', 'std,docs', 'decode,serde,docs']


def c15_feature_sets(tier):
    if tier != 'thorough':
        return C15_QUICK
    import itertools
    base = ['std', 'decode', 'serde', 'bit-vec', 'schema']
    sets = []
    for n in range(len(base) + 1):
        for c in itertools.combinations(base, n):
            sets.append(','.join(c))
    sets += [x + (',' if x else '') + 'docs' for x in ['', 'std', 'decode', 'std,decode', 'std,serde', 'serde', 'bit-vec', 'std,decode,serde,bit-vec,schema']]
    return sets


def run_witness15(tier, outdir):
    sets = c15_feature_sets(tier)
    scope = ('the SCALE encoding of the registry of 19 fixed types (derived structs / enums with docs, compact, skip, recursion, capture_docs always / never; '
             'built-ins: tuples, arrays, Vec, Option, Result, maps, sets, ranges, Duration, NonZero, Compact, Cow, PhantomData, str) printed by one program built under %d feature sets: %s'
             % (len(sets), ' | '.join(x or '(none)' for x in sets)))
    src = os.path.join(outdir, 'witness15-src')
    shutil.rmtree(src, ignore_errors=True)
    shutil.copytree(os.path.join(VERIF, 'witness15'), src)
    p = os.path.join(src, 'Cargo.toml')
    manifest = open(p).read().replace('path = "/repo"', 'path = "%s"' % REPO)
    open(p, 'w').write(manifest)
    env = dict(os.environ, CARGO_NET_OFFLINE='true', CARGO_TARGET_DIR=os.path.join(VERIF, 'build', 'witness15-target'))
    res = dict(property='C15', max=len(sets), scope=scope, features=[], cmd='(cd %s && for each feature set F: cargo run --release --offline --features F)' % src,
               cases=0, nontrivial=0)
    t0 = time.time()
    ref_full = ref_nodocs = ref_set = None
    ref_docs_full = ref_docs_set = None
    for fs in sets:
        cmd = ['cargo', 'run', '--release', '--offline', '--quiet'] + (['--features', fs] if fs else [])
        r = subprocess.run(cmd, cwd=src, env=env, stdout=subprocess.PIPE, stderr=subprocess.PIPE, text=True, timeout=1800)
        full = re.search(r'^FULL (\w+)$', r.stdout, re.M)
        nod = re.search(r'^NODOCS (\w+)$', r.stdout, re.M)
        if r.returncode != 0 or not full or not nod:
            res.update(status='undecided', reason='the fingerprint program does not build / run with features [%s]: %s' % (fs, (r.stderr or r.stdout)[-500:]))
            return res
        full, nod = full.group(1), nod.group(1)
        res['cases'] += 1
        docs = 'docs' in fs.split(',')
        if ref_set is None:
            ref_full, ref_nodocs, ref_set = full, nod, fs
            continue
        res['nontrivial'] += 1
        bad = None
        if nod != ref_nodocs:
            bad = 'with all documentation lists emptied the encoded registry still differs'
        elif not docs and full != ref_full:
            bad = 'the encoded registry differs'
        elif docs and ref_docs_set is None:
            ref_docs_full, ref_docs_set = full, fs
        elif docs and full != ref_docs_full:
            bad = 'with the docs feature on in both, the encoded registry (documentation included) differs'
            ref_set, ref_full = ref_docs_set, ref_docs_full
        if bad:
            k = next((i for i in range(0, min(len(nod), len(ref_nodocs)), 2) if nod[i:i + 2] != ref_nodocs[i:i + 2]), min(len(nod), len(ref_nodocs))) // 2
            res.update(status='failed', witness='%s between feature set [%s] and feature set [%s] (first differing byte of the docs-free encodings: offset %d; lengths %d / %d)\n'
                       '[%s] FULL   %s\n[%s] FULL   %s\n[%s] NODOCS %s\n[%s] NODOCS %s'
                       % (bad, ref_set or '(none)', fs or '(none)', k, len(ref_nodocs) // 2, len(nod) // 2, ref_set, ref_full, fs, full, ref_set, ref_nodocs, fs, nod))
            res['wall_s'] = round(time.time() - t0, 1)
            return res
    res.update(status='ok', wall_s=round(time.time() - t0, 1))
    return res
