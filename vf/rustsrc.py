"""Minimal, purely syntactic scanner for rustfmt-formatted Rust source.

It knows comments, string/char literals and bracket nesting -- nothing else.  It is used to
locate items (struct / enum / trait / impl / fn) by name and to cut their text out of the
working tree of /repo.  No semantic transformation happens here.
"""
import re


class LostAnchor(Exception):
    """An item or anchor named by a contract file is not present in the source."""


def code_mask(text):
    """mask[i] == True iff text[i] is code (not inside a comment, string or char literal)."""
    n = len(text)
    mask = [True] * n
    i = 0
    while i < n:
        c = text[i]
        if c == '/' and i + 1 < n and text[i + 1] == '/':
            j = text.find('\n', i)
            if j < 0:
                j = n
            for k in range(i, j):
                mask[k] = False
            i = j
        elif c == '/' and i + 1 < n and text[i + 1] == '*':
            depth, j = 1, i + 2
            while j < n and depth:
                if text.startswith('/*', j):
                    depth += 1
                    j += 2
                elif text.startswith('*/', j):
                    depth -= 1
                    j += 2
                else:
                    j += 1
            for k in range(i, j):
                mask[k] = False
            i = j
        elif c == '"' or (c in 'rb' and re.match(r'(?:b?r#*"|b")', text[i:i + 12]) and
                          (i == 0 or not (text[i - 1].isalnum() or text[i - 1] == '_'))):
            m = re.match(r'(b?)(r(#*))?"', text[i:i + 12])
            if m.group(2):  # raw string
                close = '"' + m.group(3)
                j = text.find(close, i + m.end())
                j = n if j < 0 else j + len(close)
            else:
                j = i + m.end()
                while j < n and text[j] != '"':
                    j += 2 if text[j] == '\\' else 1
                j += 1
            # keep the delimiters as "code" so that anchors can see a string is there, but not
            # its contents
            for k in range(i + 1, min(j, n) - 1):
                mask[k] = False
            i = j
        elif c == "'":
            # char literal or lifetime
            m = re.match(r"'(?:\\(?:x[0-9a-fA-F]{2}|u\{[0-9a-fA-F_]+\}|.)|[^\\'])'", text[i:i + 14])
            if m:
                for k in range(i + 1, i + m.end() - 1):
                    mask[k] = False
                i += m.end()
            else:
                i += 1
        else:
            i += 1
    return mask


OPEN = {'{': '}', '(': ')', '[': ']'}
CLOSE = {v: k for k, v in OPEN.items()}


def match_close(text, mask, i):
    """index of the bracket closing the one opened at text[i]"""
    assert text[i] in OPEN, (text[i], i)
    depth = 0
    for j in range(i, len(text)):
        if not mask[j]:
            continue
        c = text[j]
        if c in OPEN:
            depth += 1
        elif c in CLOSE:
            depth -= 1
            if depth == 0:
                return j
    raise LostAnchor('unbalanced bracket at offset %d' % i)


class Item:
    __slots__ = ('src', 'start', 'attr_end', 'end', 'kind', 'name', 'header', 'body_open', 'attrs')

    def __repr__(self):
        return 'Item(%s %s @%d)' % (self.kind, self.name or self.header, self.line())

    def line(self):
        return self.src.text.count('\n', 0, self.attr_end) + 1

    def text(self):
        """item text without leading attributes / doc comments"""
        return self.src.text[self.attr_end:self.end]

    def body_span(self):
        """(open_brace, close_brace) offsets, absolute"""
        if self.body_open is None:
            return None
        return self.body_open, self.end - 1


_KW = re.compile(r'(?:pub(?:\s*\([^)]*\))?\s+)?(?:default\s+)?(?:const\s+)?(?:unsafe\s+)?(?:async\s+)?'
                 r'(?:extern\s+"[^"]*"\s+)?'
                 r'(impl|fn|struct|enum|trait|mod|type|use|const|static|macro_rules!|union)\b')


def norm(s):
    s = ' '.join(s.split())
    return s[:-1].rstrip() if s.endswith(',') else s


class Source:
    def __init__(self, path, text=None):
        self.path = path
        self.text = open(path).read() if text is None else text
        self.mask = code_mask(self.text)

    def items(self, lo=0, hi=None):
        """items directly inside the span [lo,hi) (top level of a file, or of an impl / trait / fn body)"""
        text, mask = self.text, self.mask
        hi = len(text) if hi is None else hi
        out = []
        i = lo
        while i < hi:
            # skip whitespace and comments
            if text[i].isspace() or not mask[i]:
                # a doc comment belongs to the next item, but we drop them anyway
                i += 1
                continue
            start = i
            attrs = []
            # attributes
            while text.startswith('#[', i) or text.startswith('#![', i):
                j = text.index('[', i)
                k = match_close(text, mask, j)
                attrs.append(text[i:k + 1])
                i = k + 1
                while i < hi and (text[i].isspace() or not mask[i]):
                    i += 1
            if i >= hi:
                break
            it = Item()
            it.src, it.start, it.attr_end, it.attrs = self, start, i, attrs
            m = _KW.match(text, i)
            it.kind = m.group(1) if m else 'other'
            # find end: first '{' at depth 0 -> matching '}', or ';' at depth 0
            j = i
            it.body_open = None
            while j < hi:
                if mask[j]:
                    c = text[j]
                    if c == '{':
                        it.body_open = j
                        j = match_close(text, mask, j) + 1
                        # `struct X {..}` / fn / impl end here; a macro call `m!{..};` or
                        # a `let x = Foo {..};` statement continue to ';' -- only relevant for 'other'
                        if it.kind in ('other', 'use', 'type', 'const', 'static'):
                            k = j
                            while k < hi and text[k].isspace():
                                k += 1
                            if k < hi and text[k] in ';.?=':
                                it.body_open = None
                                continue
                            if it.kind == 'other' and re.match(r'else\b', text[k:k + 5]):
                                continue       # `if c { .. } else { .. }` is one expression
                        break
                    if c in '([':
                        j = match_close(text, mask, j) + 1
                        continue
                    if c == ';':
                        j += 1
                        break
                j += 1
            it.end = j
            head_end = it.body_open if it.body_open is not None else it.end
            it.header = norm(text[i:head_end])
            it.name = None
            if m:
                after = text[m.end():head_end]
                if it.kind in ('fn', 'struct', 'enum', 'trait', 'mod', 'type', 'union', 'const', 'static',
                               'macro_rules!'):
                    mm = re.match(r'\s*(?:mut\s+)?([A-Za-z_][A-Za-z0-9_]*)', after)
                    it.name = mm.group(1) if mm else None
            out.append(it)
            i = j
        return out

    def find(self, kind, name, lo=0, hi=None, cfg=None):
        """unique item of this kind and name (after cfg selection)"""
        cands = [it for it in self.items(lo, hi) if it.kind == kind and it.name == name]
        if cfg is not None:
            cands = [it for it in cands if cfg_active(it.attrs, cfg)]
        if len(cands) != 1:
            raise LostAnchor('%s: expected exactly one `%s %s`, found %d' % (self.path, kind, name, len(cands)))
        return cands[0]

    def find_impl(self, header, cfg=None, nth=None):
        want = norm(header)
        cands = [it for it in self.items() if it.kind == 'impl' and it.header == want]
        if cfg is not None:
            cands = [it for it in cands if cfg_active(it.attrs, cfg)]
        if nth is not None and nth < len(cands):
            return cands[nth]
        if len(cands) != 1:
            raise LostAnchor('%s: expected exactly one `%s`, found %d' % (self.path, want, len(cands)))
        return cands[0]

    def line_of(self, off):
        return self.text.count('\n', 0, off) + 1


# ------------------------------------------------------------------------------------------
# cfg evaluation (rule R10): what rustc would do for the feature set of this run

def _parse_cfg(s):
    s = s.strip()
    m = re.match(r'^(not|any|all)\s*\((.*)\)$', s, re.S)
    if m:
        inner = m.group(2)
        parts, depth, cur = [], 0, ''
        for ch in inner:
            if ch == '(':
                depth += 1
            elif ch == ')':
                depth -= 1
            if ch == ',' and depth == 0:
                parts.append(cur)
                cur = ''
            else:
                cur += ch
        if cur.strip():
            parts.append(cur)
        return (m.group(1), [_parse_cfg(p) for p in parts])
    m = re.match(r'^feature\s*=\s*"([^"]*)"$', s)
    if m:
        return ('feature', m.group(1))
    return ('flag', s)


def _eval_cfg(node, cfg):
    op, arg = node
    if op == 'feature':
        return arg in cfg['features']
    if op == 'flag':
        return arg in cfg.get('flags', ())
    if op == 'not':
        return not _eval_cfg(arg[0], cfg)
    if op == 'any':
        return any(_eval_cfg(a, cfg) for a in arg)
    if op == 'all':
        return all(_eval_cfg(a, cfg) for a in arg)
    raise ValueError(op)


def cfg_active(attrs, cfg):
    for a in attrs:
        m = re.match(r'^#\[cfg\((.*)\)\]$', a, re.S)
        if m and not _eval_cfg(_parse_cfg(m.group(1)), cfg):
            return False
    return True
