"""Build a Verus unit from its template and run the verifier on it."""
import json
import os
import re
import subprocess
import time

from .extract import Extractor, expanded_source
from .rustsrc import LostAnchor

VERIF = os.path.dirname(os.path.dirname(os.path.abspath(__file__)))
REPO = os.environ.get('VERIF_REPO', '/repo')
BUILD = os.path.join(VERIF, 'build')

SEMANTIC = (
    'postcondition not satisfied', 'precondition not satisfied', 'invariant not satisfied',
    'assertion failed', 'decreases not satisfied', 'possible arithmetic', 'possible division',
    'possible bit shift', 'index out of bounds', 'loop invariant', 'unreachable', 'recommendation not met',
    'termination', 'assert_by', 'could not prove termination', 'cannot show',
    'failed to satisfy', 'fails to satisfy', 'may be out of bounds', 'not satisfied', 'unable to prove',
)
# structural rejections by Verus itself (no rustc code): the text is outside the verifier's reach - never a verdict
TOOL = ('cyclic self-reference', 'not supported', 'not yet support', 'unsupported', 'is not a member of', 'cannot find')
UNDECIDED = ('resource limit', 'rlimit', 'timed out', 'timeout', 'solver')


class UnitResult:
    def __init__(self, name):
        self.name = name
        self.status = 'ok'          # ok | failed | undecided
        self.reason = ''
        self.errors = []            # dicts: item, message, label, clause, line
        self.verified = 0
        self.n_errors = 0
        self.functions = {}         # verus function name -> dict(success, time_us, rlimit)
        self.smt_ms = 0
        self.total_ms = 0
        self.log = None
        self.path = None
        self.cmd = ''
        self.obligation_items = []
        self.raw_stderr = ''
        self.wall_s = 0.0
        self.assumption_scan = {}


def default_cfg(features=('std',)):
    return dict(features=set(features), flags=set())


def build_unit(unit, cfg=None, suffix='', mutate=None, canary=False, canary_at_start=(), outdir=None):
    """extract -> build/<unit><suffix>.rs ; returns (path, extractor)"""
    cfg = cfg or default_cfg()
    outdir = outdir or BUILD
    os.makedirs(outdir, exist_ok=True)
    # units over the default feature set (and `docs`, which only gates builder bodies) use the default expansion;
    # any other feature set (serde, no-std ...) is expanded with exactly those features
    xf = None if set(cfg['features']) <= {'std', 'docs'} and 'std' in cfg['features'] else sorted(cfg['features'])
    ex = Extractor(REPO, VERIF, cfg, expanded_provider=lambda: expanded_source(REPO, os.path.join(BUILD, 'cache'), xf),
                   canary=canary, canary_at_start=canary_at_start)
    text = ex.run(os.path.join(VERIF, 'contracts', unit + '.vrs'))
    if mutate:
        text = mutate(text, ex)
    path = os.path.join(outdir, unit + suffix + ('-canary' if canary else '') + '.rs')
    with open(path, 'w') as f:
        f.write(text)
    return path, ex


def scan_assumptions(text):
    pats = {
        'assume(': r'\bassume\s*\(', 'admit(': r'\badmit\s*\(', 'external_body': r'external_body',
        'assume_specification': r'\bassume_specification\b', 'axiom fn': r'\baxiom\s+fn\b',
        'exec_allows_no_decreases_clause': r'exec_allows_no_decreases_clause', 'external_type_specification': r'external_type_specification',
        'external_trait_specification': r'external_trait_specification', 'uninterp spec fn': r'\buninterp\s+spec\s+fn\b',
        '#[verifier::external]': r'verifier::external\]',
    }
    code = '\n'.join(l for l in text.split('\n') if not l.strip().startswith('//'))
    return {k: len(re.findall(p, code)) for k, p in pats.items()}


def run_verus(path, ex, name, rlimit=None, seed=None, timeout=900, extra=(), multiple_errors=50):
    res = UnitResult(name)
    res.path = path
    res.log = ex.log
    res.obligation_items = list(ex.obligation_items)
    res.origin = ex.out.origin
    res.canary_tmpl_items = list(ex.canary_tmpl_items)
    cmd = ['verus', path, '--output-json', '--time', '--multiple-errors', str(multiple_errors), '--error-format=json',
           '--triggers-mode', 'silent']
    if rlimit:
        cmd += ['--rlimit', str(rlimit)]
    if seed:
        cmd += ['--smt-option', 'random_seed=%d' % (int(seed) % (2**31))]
    cmd += list(extra)
    res.cmd = ' '.join(cmd)
    res.assumption_scan = scan_assumptions(open(path).read())
    t0 = time.time()
    try:
        p = subprocess.run(cmd, stdout=subprocess.PIPE, stderr=subprocess.PIPE, text=True, timeout=timeout,
                           cwd=os.path.dirname(path))
    except subprocess.TimeoutExpired:
        res.status, res.reason = 'undecided', 'verus wall-clock limit %ds' % timeout
        return res
    res.wall_s = time.time() - t0
    res.raw_stderr = p.stderr
    try:
        js = json.loads(p.stdout)
    except Exception:
        js = None
    diags = []
    for l in p.stderr.split('\n'):
        l = l.strip()
        if l.startswith('{'):
            try:
                diags.append(json.loads(l))
            except Exception:
                pass
    origin = ex.out.origin
    nonsem = []
    for d in diags:
        if d.get('level') != 'error':
            continue
        msg = d.get('message', '')
        if msg.startswith('aborting due to'):
            continue
        prim = [s for s in d.get('spans', []) if s.get('is_primary')] or d.get('spans', [])
        line = prim[0]['line_start'] if prim else None
        item = None
        srcfile = srcline = None
        if line and line - 1 < len(origin):
            kind, item, srcfile, srcline = origin[line - 1]
        # the enclosing verified function: prefer a non-primary span inside a repo function
        for s in d.get('spans', []):
            l2 = s['line_start']
            if l2 - 1 < len(origin) and origin[l2 - 1][1] and not str(origin[l2 - 1][1]).startswith('tmpl::'):
                if item is None or str(item).startswith('tmpl::'):
                    pass
        clause = norm_ws(prim[0]['text'][0]['text']) if prim and prim[0].get('text') else ''
        labels = [s.get('label') for s in d.get('spans', []) if s.get('label')]
        where = []
        for s in d.get('spans', []):
            l2 = s['line_start']
            if l2 - 1 < len(origin):
                where.append(origin[l2 - 1][1])
        for sp in d.get('spans', []):
            lab = sp.get('label') or ''
            if lab.startswith('at the end of the function body') or lab.startswith('at this exit') or lab.startswith('at this loop exit'):
                l2 = sp['line_start']
                if l2 - 1 < len(origin) and origin[l2 - 1][1]:
                    item = origin[l2 - 1][1]
                    srcfile, srcline = origin[l2 - 1][2], origin[l2 - 1][3]
        err = dict(message=msg, item=item, items=[w for w in where if w], clause=clause, labels=labels, out_line=line,
                   src_file=srcfile, src_line=srcline, rendered=d.get('rendered', ''))
        low = msg.lower()
        if d.get('code'):
            # a rustc error code (E0277, E0308, ...): the extracted text does not compile - never a verdict
            err['class'] = 'tool'
            nonsem.append(msg)
        elif any(u in low for u in TOOL):
            err['class'] = 'tool'
            nonsem.append(msg)
        elif any(u in low for u in UNDECIDED):
            err['class'] = 'undecided'
        elif any(s in low for s in SEMANTIC):
            err['class'] = 'semantic'
        else:
            err['class'] = 'tool'
            nonsem.append(msg)
        if err['class'] == 'semantic':
            grown = shape_growth(name, item, ex.log)
            if grown:
                # the function has been restructured since the proofs were written: it now contains constructs that need
                # annotations of their own (loop invariant, closure contract, iterator-adaptor spec, extra exit point).
                # A failed obligation there means "needs contract", not "property broken" - undecided, never an alarm.
                err['class'] = 'restructured'
                err['restructured'] = grown
        res.errors.append(err)
    if js:
        vr = js.get('verification-results', {})
        res.verified = vr.get('verified', 0)
        res.n_errors = vr.get('errors', 0)
        tm = js.get('times-ms', {})
        res.total_ms = tm.get('total', 0)
        smt = tm.get('smt', {})
        res.smt_ms = smt.get('smt-run', 0)
        for mod in smt.get('smt-run-module-times', []):
            for fb in mod.get('function-breakdown', []):
                res.functions[fb['function']] = dict(success=fb.get('success'), time_us=fb.get('time-micros'),
                                                     rlimit=fb.get('rlimit'), mode=fb.get('mode:'))
        if vr.get('encountered-vir-error'):
            res.status = 'undecided'
            res.reason = 'Verus rejected the extracted text (unsupported construct / type error): ' + '; '.join(nonsem[:3])
    if p.returncode == 0 and js and js['verification-results'].get('success'):
        res.status = 'ok'
        return res
    classes = set(e['class'] for e in res.errors)
    if not res.errors:
        res.status, res.reason = 'undecided', 'verus exited %d without diagnostics: %s' % (p.returncode, p.stderr[-500:])
    elif 'tool' in classes:
        res.status = 'undecided'
        res.reason = 'Verus rejected the extracted text (unsupported construct / type error): ' + '; '.join(nonsem[:3])
    elif 'semantic' in classes:
        res.status = 'failed'
    elif 'restructured' in classes:
        e0 = [e for e in res.errors if e['class'] == 'restructured'][0]
        res.status = 'restructured'
        res.reason = ('`%s` was restructured (new %s relative to the committed baseline) and its proof no longer goes through: '
                      'needs contract, not a verdict [%s: %s]' % (e0['item'], ', '.join(e0['restructured']), e0['message'], e0['clause'][:100]))
    else:
        res.status, res.reason = 'undecided', 'solver resource limit'
    return res


_SHAPES = None


def shape_growth(unit, item, log):
    """constructs (loop / closure / iterator adaptor / early exit) that `item` has now and did not have on the committed baseline"""
    global _SHAPES
    if _SHAPES is None:
        try:
            _SHAPES = json.load(open(os.path.join(VERIF, 'baseline', 'shapes.json')))
        except Exception:
            _SHAPES = {}
    if not item or log is None:
        return []
    now = None
    for it in log.items:
        if it.get('kind') == 'fn' and it.get('name') == item and 'shape' in it and not it.get('external'):
            now = it['shape']
    if now is None:
        for it in log.items:
            if it.get('kind') == 'fn' and it.get('name') == item and 'shape' in it:
                now = it['shape']
    base = _SHAPES.get('%s/%s' % (unit, item))
    if now is None or base is None:
        return []
    grown = ['%s x%d->x%d' % (k, base.get(k, 0), v) for k, v in now.items() if k not in ('exit', 'calls') and v > base.get(k, 0)]
    if 'calls' in base:
        # a callee that is itself under contract in this unit (or is declared with a contract in the template) is precise
        known = set()
        for it in log.items:
            if it.get('kind') == 'fn':
                known.add(re.split(r'::', it['name'])[-1])
        known |= set(getattr(log, 'template_fns', ()))
        grown += ['call of `%s`' % c for c in now.get('calls', []) if c not in base['calls'] and c not in known]
    return sorted(grown)


def norm_ws(s):
    return ' '.join(s.split())


def verify_unit(unit, cfg=None, suffix='', canary=False, canary_at_start=(), outdir=None, **kw):
    try:
        path, ex = build_unit(unit, cfg, suffix, canary=canary, canary_at_start=canary_at_start, outdir=outdir)
    except (LostAnchor, ValueError, KeyError, IndexError, AssertionError) as e:
        r = UnitResult(unit + suffix)
        r.status, r.reason = 'undecided', 'extraction: %s' % e
        return r
    return run_verus(path, ex, unit + suffix, **kw)


if __name__ == '__main__':
    import sys
    unit = sys.argv[1]
    feats = ('std', 'docs') if '--docs' in sys.argv else ('std',)
    for a in sys.argv:
        if a.startswith('--features='):
            feats = tuple(x for x in a.split('=')[1].split(',') if x)
    r = verify_unit(unit, default_cfg(feats))
    print('unit', r.name, 'status', r.status, r.reason)
    print('verified', r.verified, 'errors', r.n_errors, 'smt_ms', r.smt_ms, 'wall', round(r.wall_s, 1))
    for k, e in enumerate(r.errors):
        print('--', e['class'], e['message'], '| item:', e['item'], '| clause:', e['clause'][:120], '|', e['labels'][:2])
        if '-v' in sys.argv and k < 4:
            print(e['rendered'][:1500])
    if r.log:
        print('rewrites:', [(w['rule'], w['file'], w['line']) for w in r.log.rewrites])
        print('items:', [(i['name'], i.get('external')) for i in r.log.items if i['kind'] == 'fn'])
