"""Mechanical extractor: contracts/<unit>.vrs (template with //@ directives) + /repo working tree
-> build/<unit>.rs (single-file Verus input).

The executable text of every function under contract is cut out of /repo's *current working tree*
on every run.  The template contributes only ghost text (spec fns, lemmas, requires/ensures,
invariants, proof blocks) and declarations of assumed std contracts.  Every change to repo text is
either one of the global syntactic rules (R1, R2, R3, R4, R11 below) or an explicit `rewrite`
directive; all of them are logged and reported in the evidence.

Directive language (each directive is a line starting with `//@`):

  //@ include <file> [external]         splice another template (all `fn` directives become external)
  //@ def <src> <Name> [derive=A,B]     struct / enum / type-alias definition copied from <src>
  //@ trait <src> <Name> [as `hdr`]     open a trait copied from <src>;     ... //@ endtrait
  //@ impl <src> `<header>` [as `hdr`] [nth=k]   open an impl block;        ... //@ endimpl
  //@ expanded-impl `<header>`          impl block taken from rustc's macro-expanded source
  //@ impl expanded `<header>` bounds `<where predicates>`   derive-generated impl; its where-clause is completed with the given bounds (rule R21)
  //@ assoc <Name>                      (inside trait/impl) copy `type Name ...;`
  //@ fn-absent <name>                  (inside impl) structural obligation: no function of this name in this configuration
  //@ forbid-call <name> [allow=N `item`]   unit-level structural obligation per verified function: no call of <name> (any spelling)
  //@ fn <name> [external] [name=Obl]   (inside trait/impl) copy fn <name>, see below
  //@ freefn <src> <name> [external]    copy a free function
      //@ | text                        ghost text: after a `fn`, goes between signature and body;
                                        after an `after`/`before` anchor, goes at the anchor
      //@ after `anchor` [#k]           following `|` lines are inserted right after the k-th
      //@ before `anchor` [#k]          (default: only) occurrence of anchor in the fn text
      //@ rewrite <RULE> `from` => `to` logged replacement of repo text (must match exactly once)
      //@ mapcollect <RULE> `E` it=.. out=..   `E.map(|p| B).collect::<Vec<_>>()` becomes the loop that defines it (rule R20)
      //@ attr <text>                   attribute line put in front of the fn
      //@ ret <ident>                   name of the return value (default r)
  //@ end                               closes fn / freefn

Anchors match modulo whitespace.  A missing item or anchor raises LostAnchor (check exits 2).
"""
import os
import re
import subprocess
import hashlib

from .rustsrc import Source, LostAnchor, match_close, code_mask, norm, cfg_active

KEEP_DERIVE = ('Clone', 'Copy', 'PartialEq', 'Eq', 'PartialOrd', 'Ord', 'Default')


def flex(anchor):
    """regex matching anchor modulo whitespace"""
    toks = anchor.split()
    parts = []
    for t in toks:
        # also allow whitespace around punctuation inside a token run
        parts.append(re.escape(t))
    return re.compile(r'\s+'.join(parts))


def find_anchor(text, anchor, k=None):
    ms = list(flex(anchor).finditer(text))
    if k is None:
        if len(ms) != 1:
            raise LostAnchor('anchor `%s`: expected exactly 1 occurrence, found %d' % (anchor, len(ms)))
        return ms[0]
    if k >= len(ms):
        raise LostAnchor('anchor `%s` #%d: only %d occurrences' % (anchor, k, len(ms)))
    return ms[k]


class Log:
    def __init__(self):
        self.rewrites = []   # dicts: rule, file, line, before, after
        self.dropped = []    # dicts: what, file, line, text
        self.items = []      # dicts: obligation name, src file, line span, external?
        self.insertions = 0

    def rw(self, rule, file, line, before, after):
        self.rewrites.append(dict(rule=rule, file=file, line=line, before=before, after=after))

    def drop(self, what, file, line, text):
        self.dropped.append(dict(what=what, file=file, line=line, text=norm(text)[:160]))


# ------------------------------------------------------------------------------------------
# global syntactic rules applied to every piece of repo text

def strip_attrs_and_vis(text, file, line0, log, derive_keep=KEEP_DERIVE, keep_derive=True):
    """R3/R4: drop attributes (keeping a filtered #[derive]), doc comments and visibility."""
    mask = code_mask(text)
    out = []
    i, n = 0, len(text)
    while i < n:
        if mask[i] and text.startswith('#[', i):
            k = match_close(text, mask, i + 1)
            attr = text[i:k + 1]
            ln = line0 + text.count('\n', 0, i)
            m = re.match(r'#\[derive\((.*)\)\]$', attr, re.S)
            if m and keep_derive:
                names = [x.strip() for x in m.group(1).split(',') if x.strip()]
                kept = [x for x in names if x in derive_keep]
                droppedn = [x for x in names if x not in derive_keep]
                if droppedn:
                    log.drop('derive', file, ln, ','.join(droppedn))
                if kept:
                    out.append('#[derive(%s)]\n' % ', '.join(kept))
            else:
                log.drop('attribute', file, ln, attr)
            i = k + 1
            # swallow the newline + indentation that followed the attribute
            j = i
            while j < n and text[j] in ' \t':
                j += 1
            if j < n and text[j] == '\n':
                i = j + 1
                while i < n and text[i] in ' \t':
                    i += 1
                # keep indentation
                out.append(' ' * (i - j - 1))
            continue
        if not mask[i] and (text.startswith('///', i) or text.startswith('//!', i)):
            j = text.find('\n', i)
            j = n if j < 0 else j
            i = j
            continue
        if mask[i] and text.startswith('pub', i) and (i == 0 or not (text[i - 1].isalnum() or text[i - 1] == '_')):
            m = re.match(r'pub(\s*\([^)]*\))?\s+', text[i:])
            if m:
                i += m.end()
                continue
        out.append(text[i])
        i += 1
    res = ''.join(out)
    # remove lines that became empty because of dropped doc comments
    res = re.sub(r'\n([ \t]*\n)+', '\n', res)
    return res


def rule_R1(text, file, line0, log):
    """PhantomData<fn() -> X>  ->  PhantomData<X>   (Verus has no fn-pointer types)"""
    while True:
        m = re.search(r'PhantomData<fn\(\)\s*->\s*', text)
        if not m:
            return text
        # find matching '>' of PhantomData<
        depth, j = 1, m.end()
        while depth:
            if text[j] == '<':
                depth += 1
            elif text[j] == '>' and text[j - 1] != '-':
                depth -= 1
            j += 1
        inner = text[m.end():j - 1]
        before = text[m.start():j]
        after = 'PhantomData<%s>' % inner
        log.rw('R1', file, line0 + text.count('\n', 0, m.start()), before, after)
        text = text[:m.start()] + after + text[j:]


def rule_R2(text, file, line0, log):
    """enum Name {}  ->  struct Name;   (uninhabited marker types used only as type arguments)"""
    def sub(m):
        log.rw('R2', file, line0 + text.count('\n', 0, m.start()), norm(m.group(0)), 'struct %s;' % m.group(1))
        return 'struct %s;' % m.group(1)
    return re.sub(r'\benum\s+(\w+)\s*\{\s*\}', sub, text)


def rule_R11(text, file, line0, log):
    """crate::prelude::vec![..] -> vec![..]  (same std macro, reached through the crate's prelude re-export)"""
    def sub(m):
        log.rw('R11', file, line0 + text.count('\n', 0, m.start()), m.group(0), 'vec!')
        return 'vec!'
    return re.sub(r'crate::prelude::vec!', sub, text)


def rule_R9(text, file, line0, log):
    """struct field of fn-pointer type `f: fn() -> X,` -> `f: FnPtr,` (opaque token type declared by the template)"""
    def sub(m):
        log.rw('R9', file, line0 + text.count('\n', 0, m.start()), norm(m.group(0)), '%s: FnPtr,' % m.group(1))
        return '%s: FnPtr,' % m.group(1)
    return re.sub(r'\b(\w+)\s*:\s*fn\(\)\s*->\s*[\w<>:]+\s*,', sub, text)


def rule_R15(text, file, line0, log):
    """`::scale::X` (absolute path into the dependency crate, as written by its derive) -> `crate::scale::X`, the template's
    declaration-only stand-in module for that dependency"""
    n = len(re.findall(r'(?<![\w:])::scale::', text))
    if n:
        log.rw('R15', file, line0, '::scale:: (%d occurrences)' % n, 'crate::scale::')
    return re.sub(r'(?<![\w:])::scale::', 'crate::scale::', text)


def rule_R18(text, file, line0, log):
    """serde-derive output: `_serde::__privateNNN::Result` (serde's re-export of core::result::Result under a version-specific
    private module) -> `core::result::Result`; `false as usize` (the constant the derive starts its field count with) -> `0usize`"""
    n = len(re.findall(r'\b_serde::__private\d*::Result\b', text))
    if n:
        log.rw('R18', file, line0, '_serde::__privateNNN::Result (%d occurrences)' % n, 'core::result::Result')
        text = re.sub(r'\b_serde::__private\d*::Result\b', 'core::result::Result', text)
    n = len(re.findall(r'\bfalse as usize\b', text))
    if n:
        log.rw('R18', file, line0, 'false as usize (%d occurrences)' % n, '0usize')
        text = re.sub(r'\bfalse as usize\b', '0usize', text)
    return text


def global_rules(text, file, line0, log, **kw):
    text = strip_attrs_and_vis(text, file, line0, log, **kw)
    text = rule_R15(text, file, line0, log)
    text = rule_R18(text, file, line0, log)
    text = rule_R9(text, file, line0, log)
    text = rule_R1(text, file, line0, log)
    text = rule_R2(text, file, line0, log)
    text = rule_R11(text, file, line0, log)
    return text


# ------------------------------------------------------------------------------------------

class Out:
    def __init__(self):
        self.lines = []     # text
        self.origin = []    # (kind, item, file, line)

    def emit(self, text, kind, item=None, file=None, line=None):
        for k, l in enumerate(text.split('\n')):
            self.lines.append(l)
            self.origin.append((kind, item, file, (line + k) if line is not None else None))


class FnSpec:
    def __init__(self, name):
        self.name = name
        self.external = False
        self.obl = None
        self.spec = []           # ghost lines between signature and body
        self.edits = []          # ('after'|'before', anchor, k, [lines])  /  ('rewrite', rule, frm, to)
        self.attrs = []
        self.ret = 'r'
        self.ghost_lines = 0
        self.twin_as = None
        self.params = []         # rule R17 for value parameters (`_` = leave alone), positional after any self receiver
        self.tparams = []        # rule R17: names the function's own type parameters must carry (alpha-renaming)


_BT = r'`([^`]*)`'


def parse_opts(rest):
    """split `a b=c `quoted`` style directive arguments"""
    quoted = re.findall(_BT, rest)
    bare = [b for b in re.sub(_BT, ' \x00 ', rest).split() if b != '\x00']
    return bare, quoted


ADAPTORS = ('map', 'filter', 'filter_map', 'flat_map', 'flatten', 'collect', 'fold', 'any', 'all', 'zip', 'enumerate', 'rev', 'chain',
            'cloned', 'copied', 'for_each', 'find', 'find_map', 'position', 'skip', 'take', 'skip_while', 'take_while', 'extend',
            'and_then', 'or_else', 'unwrap_or_else', 'map_or', 'map_or_else', 'ok_or_else', 'then', 'retain', 'sort_by_key', 'sort_by',
            'dedup_by_key', 'drain', 'last', 'count', 'sum', 'max', 'min', 'nth', 'peekable', 'scan', 'inspect', 'partition', 'unzip')


def fn_shape(text, mask):
    """coarse count of the constructs a deductive proof needs extra annotation for (loops need invariants, closures need their own
    contracts, iterator adaptors have weak library specs, early exits multiply the exit points).  A function whose counts GROW relative
    to the committed baseline has been restructured: a failed obligation there means "needs contract", not "property broken"."""
    code = ''.join(c if m else ' ' for c, m in zip(text, mask))
    code = re.sub(r'#!?\[[^\]]*\]', lambda m: ' ' * len(m.group(0)), code)     # attributes are not calls
    sh = {}
    sh['loop'] = len(re.findall(r'\b(?:for|while|loop)\b', code))
    sh['exit'] = len(re.findall(r'\b(?:return|break|continue)\b', code)) + len(re.findall(r'\?(?=\s*[;.)\],}])', code))
    n = 0
    for m in re.finditer(r'\|', code):
        i = m.start()
        if i + 1 < len(code) and code[i + 1] == '=':
            continue
        before = code[:i].rstrip()
        if not before:
            continue
        if before[-1] in '(,={;' or re.search(r'\b(?:move|return)$', before):
            n += 1
    sh['closure'] = n
    # mutable locals: state carried across statements / loop iterations needs an invariant or a hint of its own (a cache, a counter,
    # an accumulator introduced by an optimisation); a proof that fails in a function that gained one is "needs contract"
    sh['letmut'] = len(re.findall(r'\blet\s+mut\b', code))
    for a in ADAPTORS:
        k = len(re.findall(r'\.\s*%s\s*(?:::\s*<[^()]*>\s*)?\(' % a, code))
        if k:
            sh['.' + a] = k
    # every function / method name the body calls: a callee that was not called on the baseline is a callee whose contract the
    # proof has never depended on (it may have none, or a weak library one) - same "needs contract" class
    body = code[code.find('{'):] if '{' in code else ''
    calls = set(re.findall(r'([A-Za-z_]\w*)\s*(?:::\s*<[^()]*?>\s*)?\(', body))
    calls -= {'if', 'while', 'match', 'for', 'loop', 'return', 'Some', 'Ok', 'Err', 'fn', 'in', 'let', 'else', 'move', 'as', 'mut', 'ref'}
    sh['calls'] = sorted(calls)
    return sh


def inner_cfg_edits(text, mask, body_open, cfg):
    """rule R10 inside function bodies: `#[cfg(P)] NODE` (statement, struct-literal field, match arm, expression followed by `,`/`;`)
    is kept without the attribute when P holds for the configuration of this run and deleted otherwise; `cfg!(P)` becomes the literal
    `true` / `false` - what rustc does.  Returns edits (pos, dellen, ins, False); raises LostAnchor on shapes it cannot delimit."""
    from .rustsrc import _eval_cfg, _parse_cfg
    edits = []
    for m in re.finditer(r'\bcfg!\s*\(', text[body_open:]):
        st = body_open + m.start()
        if not mask[st]:
            continue
        op = body_open + m.end() - 1
        cl = match_close(text, mask, op)
        val = _eval_cfg(_parse_cfg(text[op + 1:cl]), cfg)
        edits.append((st, cl + 1 - st, 'true' if val else 'false', False))
    for m in re.finditer(r'#\[cfg\(', text[body_open:]):
        st = body_open + m.start()
        if not mask[st]:
            continue
        ob = st + 1
        cb = match_close(text, mask, ob)
        pred = text[st + len('#[cfg('):cb - 1]
        active = _eval_cfg(_parse_cfg(pred), cfg)
        if active:
            edits.append((st, cb + 1 - st, '', False))
            continue
        # delimit the annotated node
        j = cb + 1
        n = len(text)
        depth = 0
        while j < n:
            c = text[j]
            if not mask[j]:
                j += 1
                continue
            if c in '([{':
                close = match_close(text, mask, j)
                if c == '{' and depth == 0:
                    # a block at node level: the node may end here (statement-like) unless it goes on
                    k = close + 1
                    while k < n and (text[k].isspace() or not mask[k]):
                        k += 1
                    rest = text[k:k + 6]
                    if rest.startswith('else') or rest[:1] in '.?' :
                        j = close + 1
                        continue
                    if rest[:1] in ',;':
                        j = k + 1
                        break
                    j = close + 1
                    break
                j = close + 1
                continue
            if c in ')]}':
                break          # end of the enclosing list: node ends before the closer
            if c in ',;':
                j += 1
                break
            j += 1
        else:
            raise LostAnchor('cannot delimit the node under #[cfg(%s)]' % pred)
        edits.append((st, j - st, '', False))
    return edits


def _skip_generics(text, i):
    """index just after an optional `<...>` generics list starting at or after i (whitespace skipped)"""
    j = i
    while j < len(text) and text[j].isspace():
        j += 1
    if j < len(text) and text[j] == '<':
        depth = 0
        while j < len(text):
            if text[j] == '<':
                depth += 1
            elif text[j] == '>' and text[j - 1] != '-':
                depth -= 1
                if depth == 0:
                    return j + 1
            j += 1
    return i


class Extractor:
    def __init__(self, repo, verif, cfg, expanded_provider=None, canary=False, canary_at_start=()):
        self.repo, self.verif, self.cfg = repo, verif, cfg
        self.canary, self.canary_at_start = canary, set(canary_at_start)
        self.sources = {}
        self.log = Log()
        self.out = Out()
        self.expanded_provider = expanded_provider
        self.container = None       # (kind, item, src) currently open impl / trait
        self.force_external = False
        self.obligation_items = []  # names of extracted fns
        self.contracts = {}         # named contract text shared by several fn directives
        self.canary_tmpl_items = []

    def src(self, rel):
        if rel not in self.sources:
            p = os.path.join(self.repo, rel)
            if not os.path.exists(p):
                raise LostAnchor('source file %s not found' % rel)
            self.sources[rel] = Source(p)
        return self.sources[rel]

    # -------------------------------------------------------------------------------------
    def run(self, template_path):
        self._process(template_path, external=False)
        return '\n'.join(self.out.lines) + '\n'

    def _process(self, template_path, external):
        raw_lines = open(template_path).read().split('\n')
        tname = os.path.relpath(template_path, self.verif)
        # feature-conditional template text:  //@ if-feature X  ...  //@ else-feature  ...  //@ end-feature
        lines, active = [], [True]
        for l in raw_lines:
            st = l.strip()
            if st.startswith('//@ if-feature '):
                active.append(active[-1] and any(f in self.cfg['features'] for f in st.split()[2].split('|')))
                lines.append('')
            elif st == '//@ else-feature':
                prev = active.pop()
                active.append(active[-1] and not prev)
                lines.append('')
            elif st == '//@ end-feature':
                active.pop()
                lines.append('')
            else:
                lines.append(l if active[-1] else '')
        i = 0
        cur = None      # FnSpec being collected
        cur_scope = None  # nested fn the following anchors are relative to
        cur_kind = None  # 'fn' | 'freefn'
        cur_src = None
        target = None   # list receiving '|' lines
        saved_ext = self.force_external
        self.force_external = self.force_external or external
        while i < len(lines):
            raw = lines[i]
            ln = i + 1
            i += 1
            s = raw.strip()
            if not s.startswith('//@'):
                if cur is not None:
                    if s == '':
                        continue
                    raise ValueError('%s:%d: template text inside a fn directive' % (tname, ln))
                item = self._tmpl_item(raw)
                if '/*CANARY*/' in raw:
                    # vacuity guard for template exec functions (theorems): in canary mode they must fail here
                    self.canary_tmpl_items.append(item)
                    raw = raw.replace('/*CANARY*/', 'proof { assert(false); } // CANARY' if self.canary else '')
                self.out.emit(raw, 'tmpl', item, tname, ln)
                continue
            d = s[3:].strip()
            if d.startswith('|'):
                if target is None:
                    raise ValueError('%s:%d: `|` line without target' % (tname, ln))
                target.append(d[1:][1:] if d[1:].startswith(' ') else d[1:])
                continue
            word, _, rest = d.partition(' ')
            bare, quoted = parse_opts(rest)
            if word == 'include':
                saved_pub = getattr(self, 'force_pub', False)
                self.force_pub = saved_pub or ('pub' in bare[1:])
                self._process(os.path.join(self.verif, 'contracts', bare[0]), external=('external' in bare[1:]))
                self.force_pub = saved_pub
            elif word == 'def':
                self._def(bare[0], bare[1], bare[2:])
            elif word in ('impl', 'trait'):
                self._open(word, bare, quoted)
            elif word == 'expanded-impl':
                self._expanded_impl(quoted[0])
            elif word == 'typeinfo-impls':
                self._typeinfo_impls(bare[0])
            elif word in ('endimpl', 'endtrait'):
                self.out.emit('}', 'repo', None, None, None)
                self.container = None
                for k_, (oname, present, fname, cheader) in enumerate(getattr(self, 'pending_after_container', [])):
                    self._absent_n = getattr(self, '_absent_n', 0) + 1
                    self.out.emit('// structural obligation: `%s` must not exist in `%s` in this feature configuration\nproof fn absent_obligation_%d()\n    ensures %s,\n{}'
                                  % (fname, norm(cheader), self._absent_n, 'false' if present else 'true'), 'tmpl', 'tmpl::' + oname)
                self.pending_after_container = []
            elif word == 'assoc':
                self._assoc(bare[0])
            elif word == 'forbid-literal':
                # //@ forbid-literal <mod> <Type>...   structural obligation per type: the (macro-expanded) module never builds a value of the type
                # with a struct literal - i.e. every such value comes out of a constructor / builder function (which are under contract)
                xsrc = self.expanded_provider()
                xmod = xsrc.find('mod', bare[0])
                code_ = ''.join(c if m_ else ' ' for c, m_ in zip(xsrc.text[xmod.body_open:xmod.end], xsrc.mask[xmod.body_open:xmod.end]))
                for ty_ in bare[1:]:
                    hits = re.findall(r'(?<![\w:])(?:crate\s*::\s*)?%s\s*(?:::\s*<[^{}();]*?>\s*)?\{' % re.escape(ty_), code_)
                    # `impl .. for Type {` / `-> Type {` are not literals: count only occurrences in expression position (after `(`, `=`, `,`, `{`, `;`, `return`, `=>`)
                    n_ = 0
                    for mm_ in re.finditer(r'(?<![\w:])(?:crate\s*::\s*)?%s\s*(?:::\s*<[^{}();]*?>\s*)?\{' % re.escape(ty_), code_):
                        before_ = code_[:mm_.start()].rstrip()
                        if before_.endswith(('(', '=', ',', '{', ';', '=>', '}')) or re.search(r'\b(?:return|in)$', before_):
                            n_ += 1
                    self._forbid_n = getattr(self, '_forbid_n', 0) + 1
                    self.out.emit('// structural obligation: mod %s builds `%s` with a struct literal %d time(s); every definition there must come out of a constructor under contract\nproof fn forbid_obligation_%d()\n    ensures %s,\n{}'
                                  % (bare[0], ty_, n_, self._forbid_n, 'true' if n_ == 0 else 'false'), 'tmpl', 'tmpl::no_literal::%s::%s' % (bare[0], ty_))
            elif word == 'forbid-call':
                # //@ forbid-call <name> [allow=N in `<item>`]...   unit-level structural obligation, one per verified function emitted so far:
                # the body must not call <name> (in any spelling: method, path, UFCS) - except the stated number of times in the named item
                allow = {}
                for k_, q in enumerate(quoted):
                    allow[q] = int([b for b in bare[1:] if b.startswith('allow=')][k_][6:])
                rx = re.compile(r'\b%s\s*(?:::\s*<[^()]*?>\s*)?\(' % re.escape(bare[0]))
                for oname_, code_ in sorted(getattr(self, 'fn_code', {}).items()):
                    n_ = len(rx.findall(code_))
                    ok_ = n_ <= allow.get(oname_, 0)
                    self._forbid_n = getattr(self, '_forbid_n', 0) + 1
                    self.out.emit('// structural obligation: `%s` calls `%s` %d time(s), at most %d allowed here\nproof fn forbid_obligation_%d()\n    ensures %s,\n{}'
                                  % (oname_, bare[0], n_, allow.get(oname_, 0), self._forbid_n, 'true' if ok_ else 'false'),
                                  'tmpl', 'tmpl::no_call::%s::%s' % (bare[0], oname_))
            elif word == 'fn-absent':
                # structural obligation: in this configuration the impl must NOT contain a function of this name (a feature-gated setter
                # that exists without its feature would keep what the statement says is dropped).  Emitted as a proof obligation of its
                # own so that it is named, counted and reported like every other one: `ensures false` iff the function is there.
                cw, cit, csrc, crel, cheader = self.container
                clo, chi = cit.body_span()
                present = [x for x in csrc.items(clo + 1, chi) if x.kind == 'fn' and x.name == bare[0] and cfg_active(x.attrs, self.cfg)]
                oname = 'absent::%s' % self._obl_name(cheader, bare[0])
                self.pending_after_container = getattr(self, 'pending_after_container', [])
                self.pending_after_container.append((oname, bool(present), bare[0], cheader))
            elif word == 'contract':
                tl = []
                self.contracts[bare[0]] = tl
                target = tl
            elif word == 'endcontract':
                target = None
            elif word == 'use-contract':
                cl = list(self.contracts[bare[0]])
                for o in bare[1:]:
                    if o.startswith('subst='):
                        a, b = o[6:].split(':')
                        cl = [re.sub(r'\b%s\b' % re.escape(a), b, l) for l in cl]
                cur.spec.extend(cl)
            elif word in ('fn', 'freefn', 'twinfn'):
                if word == 'freefn':
                    cur_src, nm, opts = bare[0], bare[1], bare[2:]
                elif word == 'twinfn':
                    cur_src, nm, opts = (bare[0], quoted[0]), bare[1], bare[2:]
                else:
                    cur_src, nm, opts = None, bare[0], bare[1:]
                cur = FnSpec(nm)
                for o in opts:
                    if o.startswith('as='):
                        cur.twin_as = o[3:]
                cur_kind = word
                cur.external = ('external' in opts) or self.force_external
                cur.optional = 'optional' in opts      # a function the impl may legitimately lack (a provided trait method the derive overrides only sometimes)
                for o in opts:
                    if o.startswith('name='):
                        cur.obl = o[5:]
                target = cur.spec
            elif word in ('after', 'before', 'after-let', 'loop', 'loop-end', 'loop-start', 'body-start', 'before-tail', 'stmt-before-each'):
                k = None
                label = None
                for b in bare:
                    if b.startswith('#'):
                        k = int(b[1:])
                    if b.startswith('label='):
                        label = b[6:]
                tl = []
                cur.edits.append(dict(op=word, anchor=quoted[0] if quoted else None, k=k, lines=tl, scope=cur_scope, label=label))
                target = tl
            elif word == 'nested':
                cur_scope = bare[0]
                tl = []
                cur.edits.append(dict(op='nested-spec', scope=cur_scope, lines=tl, ret=(bare[1][4:] if len(bare) > 1 and bare[1].startswith('ret=') else 'r')))
                target = tl
            elif word == 'nested-end':
                cur_scope = None
                target = None
            elif word in ('rewrite', 'rewrite?'):
                m = re.match(r'(\w+)\s+' + _BT + r'\s*=>\s*' + _BT + r'\s*$', rest)
                if not m:
                    raise ValueError('%s:%d: bad rewrite directive' % (tname, ln))
                cur.edits.append(dict(op='rewrite', rule=m.group(1), frm=m.group(2).replace('\\n', '\n'), to=m.group(3).replace('\\n', '\n'), scope=cur_scope, optional=(word == 'rewrite?')))
            elif word in ('closure', 'closure?'):
                # //@ closure R8 `|&id|` => `|id0: &usize| -> (res: X) ensures ..` [let `let id = *id0;`]
                m = re.match(r'(\w+)\s+' + _BT + r'\s*=>\s*' + _BT + r'(?:\s+let\s+' + _BT + r')?\s*$', rest)
                if not m:
                    raise ValueError('%s:%d: bad closure directive' % (tname, ln))
                cur.edits.append(dict(op='closure', rule=m.group(1), frm=m.group(2), to=m.group(3), let=m.group(4) or '', scope=cur_scope, optional=(word == 'closure?')))
            elif word == 'mapcollect':
                # //@ mapcollect R20 `E` [`Vec<T>`] it=it0 out=out0 cnt=n0 item=x0
                #   + `|` lines: loop spec;  `|@pre` before the loop, `|@iter` at the start of the loop body, `|@item` at the start of the Some arm, `|@post` at its end, `|@end` after the loop
                opts = dict(b.split('=', 1) for b in bare[1:] if '=' in b)
                tl = []
                cur.edits.append(dict(op='mapcollect', rule=bare[0], anchor=quoted[0], ty=(quoted[1] if len(quoted) > 1 else None), it=opts.get('it', 'it0'),
                                      out=opts.get('out', 'out0'), cnt=opts.get('cnt', 'n0'), item=opts.get('item', 'x0'), lines=tl, scope=cur_scope))
                target = tl
            elif word == 'attr':
                cur.attrs.append(rest.strip())
            elif word == 'ret':
                cur.ret = bare[0]
            elif word == 'tparams':
                cur.tparams = list(bare)
            elif word == 'params':
                cur.params = list(bare)
            elif word == 'end':
                try:
                    self._emit_fn(cur, cur_kind, cur_src)
                except LostAnchor:
                    if not getattr(cur, 'optional', False):
                        raise
                    self.log.drop('optional function absent', str(cur_src or ''), 0, cur.name)
                cur, target, cur_scope = None, None, None
            else:
                raise ValueError('%s:%d: unknown directive %s' % (tname, ln, word))
        self.force_external = saved_ext

    _cur_tmpl_fn = None

    def _tmpl_item(self, raw):
        m = re.match(r'\s*(?:pub\s+)?(?:open\s+|closed\s+|uninterp\s+|broadcast\s+|axiom\s+)*(?:spec|proof|exec)?\s*fn\s+(\w+)', raw)
        if m:
            self._cur_tmpl_fn = 'tmpl::' + m.group(1)
            if not hasattr(self.log, 'template_fns'):
                self.log.template_fns = set()
            self.log.template_fns.add(m.group(1))
        return self._cur_tmpl_fn

    # -------------------------------------------------------------------------------------
    def _def(self, rel, name, opts):
        mods = rel.split('::')[1:]
        rel = rel.split('::')[0]
        src = self.src(rel)
        lo, hi = 0, None
        for mname in mods:
            mit = src.find('mod', mname, lo, hi, cfg=self.cfg)
            lo, hi = mit.body_open + 1, mit.end - 1
        it = None
        for kind in ('struct', 'enum', 'type', 'trait'):
            try:
                it = src.find(kind, name, lo, hi, cfg=self.cfg)
                break
            except LostAnchor:
                continue
        if it is None:
            raise LostAnchor('%s: no struct/enum/type/trait named %s' % (rel, name))
        keep = KEEP_DERIVE
        for o in opts:
            if o.startswith('derive='):
                keep = tuple(x for x in o[7:].split(',') if x)
        line0 = src.line_of(it.start)
        text = src.text[it.start:it.end]
        text = global_rules(text, rel, line0, self.log, derive_keep=keep)
        if 'pub' in opts or getattr(self, 'force_pub', False):
            # R3 variant: everything visible (needed where a std trait impl, e.g. Default, carries an ensures)
            text = re.sub(r'(^|\n)(\s*)(struct|enum)\b', r'\1\2pub \3', text, count=1)
            out, depth = [], 0
            for l in text.split('\n'):
                if depth == 1 and it.kind == 'struct':
                    l = re.sub(r'^(\s*)([a-z_][A-Za-z0-9_]*)\s*:', r'\1pub \2:', l)
                depth += l.count('{') - l.count('}')
                out.append(l)
            text = '\n'.join(out)
        self.out.emit(text, 'repo', 'def::' + name, rel, src.line_of(it.attr_end))
        self.log.items.append(dict(kind='def', name=name, file=rel, line=src.line_of(it.attr_end)))

    def _open(self, word, bare, quoted):
        rel = bare[0]
        nth = None
        for b in bare:
            if b.startswith('nth='):
                nth = int(b[4:])
        if rel == 'expanded':
            src, it = self._find_expanded_impl(quoted[0], prefix=True)
            rel = 'rustc-expanded:src/lib.rs'
            header_q = quoted[1:] if 'as' in bare else []
        elif word == 'impl':
            src = self.src(rel)
            it = src.find_impl(quoted[0], cfg=self.cfg, nth=nth)
            header_q = quoted[1:] if 'as' in bare else []
        else:
            src = self.src(rel)
            it = src.find('trait', bare[1], cfg=self.cfg)
            header_q = quoted if 'as' in bare else []
        line0 = src.line_of(it.attr_end)
        header = src.text[it.attr_end:it.body_open].rstrip()
        header = global_rules(header, rel, line0, self.log)
        if header_q:
            self.log.rw('HDR', rel, line0, norm(header), header_q[0])
            header = header_q[0]
        name_header = norm(header)
        if 'bounds' in bare:
            # rule R21: the where-clause of a derive-generated impl is completed with the bounds the layout template needs (the derive states them
            # itself for every encoded member; it drops them for a member it skips, and the text would then be rejected instead of refuted)
            extra = quoted[-1]
            self.log.rw('R21', rel, line0, norm(header), 'where-clause completed with `%s`' % extra)
            header = header.rstrip().rstrip(',') + (', ' if re.search(r'\bwhere\b', header) else ' where ') + extra
        self.out.emit(header + ' {', 'repo', None, rel, line0)
        if bare[0] == 'expanded' and not (norm(it.header) + ' ').startswith(norm(quoted[0]) + ' '):
            # a hand-written impl standing in for the derived one keeps the obligation names of the derived one
            name_header = norm(global_rules(quoted[0], rel, line0, Log()))
        self.container = (word, it, src, rel, name_header)

    def _find_expanded_impl(self, header, prefix=False):
        src = self.expanded_provider()
        want = norm(header)
        cands, stack = [], [(0, len(src.text))]
        while stack:
            l, h = stack.pop()
            for x in src.items(l, h):
                if x.kind == 'impl' and (x.header == want or (prefix and (x.header + ' ').startswith(want + ' '))):
                    cands.append(x)
                elif x.kind == 'mod' and x.body_open is not None:
                    stack.append((x.body_open + 1, x.end - 1))
                elif x.kind == 'const' and x.name == '_':
                    # the `const _: () = { impl .. };` blocks derives are wrapped in
                    bo = x.attr_end
                    while bo < x.end and not (src.text[bo] == '{' and src.mask[bo]):
                        bo += 1
                    if bo < x.end:
                        stack.append((bo + 1, match_close(src.text, src.mask, bo)))
        if not cands and prefix:
            # the derive may have been replaced by a hand-written impl: same trait (last path segment), same Self type
            def key(h):
                m = re.match(r'^impl(?:<.*?>)?\s+(\S+)\s+for\s+(.*?)(?:\s+where\b.*)?$', h)
                return (m.group(1).split('::')[-1], re.sub(r'\s+', '', m.group(2))) if m else None
            k0 = key(want)
            stack = [(0, len(src.text))]
            while stack and k0:
                l, h = stack.pop()
                for x in src.items(l, h):
                    if x.kind == 'impl' and key(x.header) == k0:
                        cands.append(x)
                    elif x.kind == 'mod' and x.body_open is not None:
                        stack.append((x.body_open + 1, x.end - 1))
                    elif x.kind == 'const' and x.name == '_':
                        bo = x.attr_end
                        while bo < x.end and not (src.text[bo] == '{' and src.mask[bo]):
                            bo += 1
                        if bo < x.end:
                            stack.append((bo + 1, match_close(src.text, src.mask, bo)))
            if len(cands) == 1:
                self.log.rw('HDR', 'rustc-expanded:src/lib.rs', 0, want + ' (as generated by the derive)', cands[0].header + ' (hand-written impl found instead)')
        if len(cands) != 1:
            raise LostAnchor('macro-expanded source: expected exactly one `%s`, found %d' % (want, len(cands)))
        return src, cands[0]

    def _expanded_impl(self, header):
        src = self.expanded_provider()
        want = norm(header)
        cands, stack = [], [(0, len(src.text))]
        while stack:
            l, h = stack.pop()
            for x in src.items(l, h):
                if x.kind == 'impl' and x.header == want:
                    cands.append(x)
                elif x.kind == 'mod' and x.body_open is not None:
                    stack.append((x.body_open + 1, x.end - 1))
        if len(cands) != 1:
            raise LostAnchor('macro-expanded source: expected exactly one `%s`, found %d' % (want, len(cands)))
        it = cands[0]
        text = src.text[it.attr_end:it.end]
        text = global_rules(text, 'rustc-expanded:src/lib.rs', 0, self.log)
        self.out.emit(text, 'repo', 'expanded::' + norm(header), 'rustc -Zunpretty=expanded', None)
        self.log.items.append(dict(kind='expanded-impl', name=norm(header), file='rustc -Zunpretty=expanded', line=None))

    # the transparent wrappers the statement of C05 allows, and the type each must share its id with
    ALIASES = {'Box<T>': 'T', 'Rc<T>': 'T', 'Arc<T>': 'T', '&T': 'T', '&mut T': 'T', 'Vec<T>': '[T]',
               'VecDeque<T>': '[T]', 'String': 'str', 'PhantomData<T>': 'PhantomData<()>'}

    def _typeinfo_impls(self, modname):
        """one block per `impl TypeInfo for X` of the (macro-expanded) module: header and `type Identity` copied
        from the source, forwarding bodies copied and verified, plus one generic identity obligation each"""
        src = self.expanded_provider()
        mod = src.find('mod', modname)
        # impls of the module AND of its nested modules (`#[cfg(feature = "bit-vec")] mod bit_vec` holds three more): every
        # `impl TypeInfo` the file contributes in this configuration gets its identity obligation
        impls = []
        stack = [(mod.body_open + 1, mod.end - 1)]
        while stack:
            l_, h_ = stack.pop(0)
            for x in src.items(l_, h_):
                if x.kind == 'impl' and ' TypeInfo for ' in x.header:
                    impls.append(x)
                elif x.kind == 'mod' and x.body_open is not None and cfg_active(x.attrs, self.cfg):
                    stack.append((x.body_open + 1, x.end - 1))
        if not impls:
            raise LostAnchor('no TypeInfo impls found in expanded mod %s' % modname)
        k = 0
        for it in impls:
            if not cfg_active(it.attrs, self.cfg):
                continue
            m = re.match(r'^impl(?:<(.*?)>)? TypeInfo for (.*?)(?: where(?: (.*))?)?$', it.header)
            if not m:
                raise LostAnchor('cannot parse impl header `%s`' % it.header)
            generics, selfty, where = m.group(1) or '', m.group(2).strip(), (m.group(3) or '').rstrip(',')
            lo, hi = it.body_span()
            ident = src.find('type', 'Identity', lo + 1, hi)
            ident_txt = norm(src.text[ident.attr_end:ident.end])
            fn = src.find('fn', 'type_info', lo + 1, hi)
            fn_txt = src.text[fn.attr_end:fn.end]
            k += 1
            alias = self.ALIASES.get(selfty)
            g = ('<%s>' % generics) if generics else ''
            w = (' where %s' % where) if where else ''
            name = 'TypeInfo for %s' % selfty
            self.out.emit('impl%s TypeInfo for %s%s {' % (g, selfty, ('\nwhere ' + where) if where else ''), 'repo', name, 'rustc-expanded:src/impls.rs', None)
            self.out.emit('    ' + ident_txt, 'repo', name, 'rustc-expanded:src/impls.rs', None)
            if alias and selfty != 'PhantomData<T>':
                self.out.emit('    closed spec fn spec_info() -> Type<MetaForm> { <%s as TypeInfo>::spec_info() }' % alias, 'tmpl', name)
                ftxt = global_rules(fn_txt, 'src/impls.rs', 0, self.log, keep_derive=False)
                fmask = code_mask(fn_txt)
                body_code = ''.join(c if mk else ' ' for c, mk in zip(fn_txt, fmask))
                body_code = body_code[body_code.index('{'):]
                forwarding = re.match(r'^\{\s*[^;{}()]*::\s*type_info\s*\(\s*\)\s*\}\s*$', body_code) is not None
                if not forwarding:
                    # the wrapper builds a definition of its own instead of forwarding to its target's: whether that definition equals
                    # the target's cannot be decided here (the builders are not part of this unit) - the body is replaced by an opaque
                    # value, the obligation fails, and because the body's callees changed it is reported as `restructured` (undecided)
                    sig = ftxt[:ftxt.index('{')].rstrip()
                    ftxt = sig + ' { opaque_definition() }'
                    self.log.rw('OPQ', 'src/impls.rs', 0, norm(fn_txt)[:160], norm(ftxt) + '  (non-forwarding body of an alias impl: left undecided)')
                if self.canary:
                    bi = ftxt.index('{')
                    ftxt = ftxt[:bi + 1] + '\n proof { assert(false); } // CANARY\n' + ftxt[bi + 1:]
                self.out.emit('    ' + ftxt, 'repo', name + '::type_info', 'rustc-expanded:src/impls.rs', None)
                self.obligation_items.append(name + '::type_info')
                self.log.items.append(dict(kind='fn', name=name + '::type_info', file='src/impls.rs (expanded)', line=None, external=False,
                                           declared_only=False, ghost_lines=0, shape=fn_shape(fn_txt, fmask), sha=hashlib.sha1(norm(fn_txt).encode()).hexdigest()[:12]))
            else:
                if selfty == 'PhantomData<T>':
                    body = fn_txt[fn_txt.index('{'):]
                    if re.search(r'\b(?:T|Self)\b', ''.join(c for c, mk in zip(body, code_mask(body)) if mk)):
                        raise LostAnchor('PhantomData<T>::type_info mentions T or Self: its result may depend on T (C16 coherence not decidable syntactically)')
                    self.out.emit('    closed spec fn spec_info() -> Type<MetaForm> { phantom_info() }', 'tmpl', name)
                else:
                    self.out.emit('    closed spec fn spec_info() -> Type<MetaForm> { info_of_type::<Self>() }', 'tmpl', name)
                sig = fn_txt[:fn_txt.index('{')].rstrip()
                self.out.emit('    #[verifier::external_body]\n    %s { unimplemented!() }' % sig, 'repo', name, 'rustc-expanded:src/impls.rs', None)
            self.out.emit('}', 'repo', name)
            rhs = ('meta_id::<%s>()' % alias) if alias else ('type_id_of::<%s>()' % selfty)
            oname = 'identity::%s' % selfty
            self.out.emit('proof fn identity_obligation_%d%s()%s\n    ensures meta_id::<%s>() == %s,\n{}' % (k, g, w, selfty, rhs),
                          'tmpl', 'tmpl::' + oname)
            self.log.items.append(dict(kind='identity', name=oname, alias=bool(alias), identity=ident_txt, file='src/impls.rs', line=None))

    def _assoc(self, name):
        word, it, src, rel, header = self.container
        lo, hi = it.body_span()
        sub = src.find('type', name, lo + 1, hi, cfg=self.cfg)
        text = global_rules(src.text[sub.attr_end:sub.end], rel, src.line_of(sub.attr_end), self.log)
        self.out.emit('    ' + text, 'repo', None, rel, src.line_of(sub.attr_end))

    # -------------------------------------------------------------------------------------
    def _obl_name(self, header, fname):
        h = re.sub(r'^impl\s*(<[^>]*>)?\s*', '', header)
        h = re.sub(r'\s+where\s+.*$', '', h)
        h = re.sub(r'^trait\s+', '', h)
        return '%s::%s' % (h.strip(), fname)

    def _emit_fn(self, spec, kind, free_src):
        if kind == 'freefn':
            rel = free_src
            src = self.src(rel)
            it = src.find('fn', spec.name, cfg=self.cfg)
            oname = spec.obl or spec.name
            indent = ''
        elif kind == 'twinfn':
            rel, hdr = free_src
            if rel == 'expanded':
                # the impl is produced by a macro: text from rustc's expansion of the working tree
                src, cit = self._find_expanded_impl(hdr)
                rel = 'rustc-expanded:src/lib.rs'
            else:
                src = self.src(rel)
                cit = src.find_impl(hdr, cfg=self.cfg)
            lo, hi = cit.body_span()
            it = src.find('fn', spec.name, lo + 1, hi, cfg=self.cfg)
            oname = spec.obl or self._obl_name(norm(hdr), spec.name)
            indent = '    '
        else:
            if self.container is None:
                raise ValueError('fn %s outside impl/trait' % spec.name)
            word, cit, src, rel, header = self.container
            lo, hi = cit.body_span()
            it = src.find('fn', spec.name, lo + 1, hi, cfg=self.cfg)
            oname = spec.obl or self._obl_name(header, spec.name)
            indent = '    '
        line0 = src.line_of(it.attr_end)
        text = src.text[it.attr_end:it.end]
        for a in it.attrs:
            self.log.drop('attribute', rel, line0, a)
        mask = code_mask(text)
        has_body = it.body_open is not None
        body_open = (it.body_open - it.attr_end) if has_body else None
        edits = []   # (pos, dellen, ins, is_ghost)
        # --- conditional compilation inside the body (evaluated for the feature set of this run, like rustc)
        if has_body and not rel.startswith('rustc-expanded'):
            for e in inner_cfg_edits(text, mask, body_open, self.cfg):
                edits.append(e)
                self.log.rw('R10', rel, line0 + text.count('\n', 0, e[0]), norm(text[e[0]:e[0] + e[1]])[:120], e[2] or '(removed / attribute dropped for this configuration)')
        # --- anchored insertions / rewrites (searched in the ORIGINAL text)
        sub = Source(rel, text=text)

        def scope_span(scope):
            """(lo, hi, body_open) of the whole fn or of a nested fn, offsets into text"""
            if scope is None:
                return 0, len(text), body_open
            lo0 = (body_open + 1) if has_body else 0
            cands = []
            stack = [(lo0, len(text) - 1)]
            while stack:
                l, h = stack.pop()
                for sit in sub.items(l, h):
                    if sit.kind == 'fn' and sit.name == scope:
                        cands.append(sit)
                    elif sit.body_open is not None and sit.kind in ('fn', 'other', 'impl', 'mod'):
                        stack.append((sit.body_open + 1, sit.end - 1))
            if len(cands) != 1:
                raise LostAnchor('%s: nested fn %s in %s: found %d' % (rel, scope, spec.name, len(cands)))
            return cands[0].attr_end, cands[0].end, cands[0].body_open

        def ghost(tl, block=True):
            ins = '\n'.join(tl)
            return ('\n' + ins + '\n') if block else ins

        all_edits = list(spec.edits)
        skipped_groups = set()
        # optional rewrites of one rule form a group: applied all together or not at all (checked before anything is applied)
        for e in all_edits:
            if e.get('op') == 'rewrite' and e.get('optional') and e.get('scope') is None:
                try:
                    find_anchor(text, e['frm'], None)
                except LostAnchor:
                    skipped_groups.add(e['rule'])
        if self.canary and has_body and not spec.external:
            cl = ['proof { assert(false); } // CANARY']
            scopes = [None] + [e['scope'] for e in spec.edits if e['op'] == 'nested-spec']
            for sc in scopes:
                nm = oname if sc is None else oname + '::' + sc
                all_edits.append(dict(op='body-start' if nm in self.canary_at_start else 'before-tail', anchor=None, k=None,
                                      lines=cl, scope=sc, label=None))
        for e in all_edits:
            op = e['op']
            if spec.external and not (op == 'rewrite' and e['rule'] in ('RET', 'SIG')):
                continue
            lo, hi, bopen = scope_span(e.get('scope'))
            seg = text[lo:hi]
            if op in ('after', 'before'):
                m = find_anchor(seg, e['anchor'], e['k'])
                pos = lo + (m.end() if op == 'after' else m.start())
                tl = e['lines']
                block = len(tl) > 1 or (tl and tl[0].lstrip().startswith(('proof', 'invariant', 'assert', 'requires', 'ensures', 'decreases')))
                edits.append((pos, 0, ghost(tl, block), True, 0 if op == 'after' else 2))
                spec.ghost_lines += len(tl)
            elif op == 'after-let':
                rx = re.compile(r'\blet\s+(?:mut\s+)?' + flex(e['anchor']).pattern + r'\s*[:=]')
                ms = [m for m in rx.finditer(seg) if mask[lo + m.start()]]
                k = e['k']
                if (k is None and len(ms) != 1) or (k is not None and k >= len(ms)):
                    raise LostAnchor('%s: fn %s: `let %s` found %d times' % (rel, spec.name, e['anchor'], len(ms)))
                m = ms[k or 0]
                j = lo + m.end()
                while j < hi:
                    if mask[j]:
                        if text[j] in '([{':
                            j = match_close(text, mask, j)
                        elif text[j] == ';':
                            break
                    j += 1
                edits.append((j + 1, 0, ghost(e['lines']), True, 0))
                spec.ghost_lines += len(e['lines'])
            elif op == 'stmt-before-each':
                ms = [m for m in flex(e['anchor']).finditer(seg) if mask[lo + m.start()] and lo + m.start() > bopen]
                if not ms:
                    raise LostAnchor('%s: fn %s: `%s` does not occur' % (rel, spec.name, e['anchor']))
                starts = set()

                def stmt_start(p0):
                    """start of the statement (of the innermost enclosing BLOCK) that contains position p0; braces of a `match`
                    body are not blocks: a call in an arm expression belongs to the statement the whole `match` belongs to"""
                    j = p0 - 1
                    depth = 0
                    while j > bopen:
                        if mask[j]:
                            c = text[j]
                            if c in ')]':
                                depth += 1
                            elif c in '([':
                                depth -= 1
                            elif depth <= 0 and c == '}':
                                # a closed brace group before us on the same level: a previous statement / arm body - or part of this one?
                                ob = j
                                d2 = 0
                                while ob > bopen:
                                    if mask[ob]:
                                        if text[ob] == '}':
                                            d2 += 1
                                        elif text[ob] == '{':
                                            d2 -= 1
                                            if d2 == 0:
                                                break
                                    ob -= 1
                                # are we inside match arms?  then the enclosing `{` decides; keep scanning from before this group
                                k2 = ob - 1
                                encl = None
                                d3 = 0
                                while k2 > bopen:
                                    if mask[k2]:
                                        if text[k2] in '})]':
                                            d3 += 1
                                        elif text[k2] in '{([':
                                            if d3 == 0:
                                                encl = k2
                                                break
                                            d3 -= 1
                                    k2 -= 1
                                if encl is not None and text[encl] == '{' and is_match_brace(encl):
                                    return stmt_start(match_kw(encl))
                                break
                            elif depth <= 0 and c == '{':
                                if is_match_brace(j):
                                    return stmt_start(match_kw(j))
                                break
                            elif depth <= 0 and c == ';':
                                break
                        j -= 1
                    return j + 1

                def match_kw(ob):
                    """position of the `match` keyword whose body opens at ob"""
                    j = ob - 1
                    depth = 0
                    while j > bopen:
                        if mask[j]:
                            c = text[j]
                            if c in ')]}':
                                depth += 1
                            elif c in '([{':
                                depth -= 1
                            elif depth == 0 and c == ';':
                                break
                            if depth == 0 and text.startswith('match', j) and not (text[j - 1].isalnum() or text[j - 1] == '_') and not (text[j + 5].isalnum() or text[j + 5] == '_'):
                                return j
                        j -= 1
                    return None

                def is_match_brace(ob):
                    return match_kw(ob) is not None

                for m in ms:
                    starts.add(stmt_start(lo + m.start()))
                for st in sorted(starts):
                    edits.append((st, 0, ghost(e['lines']), True, 2))
                    spec.ghost_lines += len(e['lines'])
            elif op == 'body-start':
                edits.append((bopen + 1, 0, ghost(e['lines']), True))
                spec.ghost_lines += len(e['lines'])
            elif op == 'before-tail':
                close = match_close(text, mask, bopen)
                stmts = sub.items(bopen + 1, close)
                if stmts and not text[stmts[-1].attr_end:stmts[-1].end].rstrip().endswith(';'):
                    pos = stmts[-1].start
                else:
                    pos = close
                edits.append((pos, 0, ghost(e['lines']), True))
                spec.ghost_lines += len(e['lines'])
            elif op in ('loop-end', 'loop-start') and False:
                pass
            elif op in ('loop-end', 'loop-start'):
                ms = [m for m in flex(e['anchor']).finditer(seg) if mask[lo + m.start()]]
                k = e['k']
                if (k is None and len(ms) != 1) or (k is not None and k >= len(ms)):
                    raise LostAnchor('%s: fn %s: loop `%s` found %d times' % (rel, spec.name, e['anchor'], len(ms)))
                j = lo + ms[k or 0].end()
                while j < hi:
                    if mask[j]:
                        if text[j] in '([':
                            j = match_close(text, mask, j)
                        elif text[j] == '{':
                            break
                    j += 1
                edits.append(((match_close(text, mask, j) if op == 'loop-end' else j + 1), 0, ghost(e['lines']), True))
                spec.ghost_lines += len(e['lines'])
            elif op == 'loop':
                ms = [m for m in flex(e['anchor']).finditer(seg) if mask[lo + m.start()]]
                k = e['k']
                if (k is None and len(ms) != 1) or (k is not None and k >= len(ms)):
                    raise LostAnchor('%s: fn %s: loop `%s` found %d times' % (rel, spec.name, e['anchor'], len(ms)))
                m = ms[k or 0]
                if e.get('label'):
                    if not e['anchor'].rstrip().endswith(' in'):
                        raise ValueError('loop anchor must end with ` in` to take a label')
                    edits.append((lo + m.end(), 0, ' %s:' % e['label'], True))
                j = lo + m.end()
                while j < hi:
                    if mask[j]:
                        if text[j] in '([':
                            j = match_close(text, mask, j)
                        elif text[j] == '{':
                            break
                    j += 1
                edits.append((j, 0, ghost(e['lines']), True))
                spec.ghost_lines += len(e['lines'])
            elif op == 'nested-spec':
                arrow = self._find_arrow(seg, mask[lo:hi], bopen - lo)
                if arrow is not None:
                    t0, t1 = arrow
                    rt = seg[t0:t1].strip()
                    edits.append((lo + t0, t1 - t0, ' (%s: %s)' % (e['ret'], rt), False))
                    self.log.rw('RET', rel, line0 + text.count('\n', 0, lo + t0), '-> ' + rt, '-> (%s: %s)' % (e['ret'], rt))
                edits.append((bopen, 0, ghost(e['lines']), True))
                spec.ghost_lines += len(e['lines'])
            elif op == 'closure':
                # the parameter list of a closure literal gets types / a contract and, where the original used a pattern, a variable
                # plus a `let`; the closure BODY is taken as it is, wherever it ends (the rule does not look inside it)
                if spec.external:
                    continue
                let_txt = e['let']
                try:
                    if e['frm'].startswith('re:'):
                        # parameter NAMES are free: the anchor is a regular expression, its groups may be used in the `let`
                        ms = [x for x in re.finditer(e['frm'][3:], seg) if mask[lo + x.start()]]
                        if len(ms) != 1:
                            raise LostAnchor('%s: fn %s: closure `%s` found %d times' % (rel, spec.name, e['frm'], len(ms)))
                        m = ms[0]
                        let_txt = m.expand(let_txt)
                    else:
                        m = find_anchor(seg, e['frm'], None)
                except LostAnchor:
                    if e.get('optional'):
                        continue
                    raise
                b0 = lo + m.end()
                j = b0
                while j < hi and text[j].isspace():
                    j += 1
                if text[j] == '{' and mask[j]:
                    bend = match_close(text, mask, j) + 1
                    k = bend
                    while k < hi and text[k].isspace():
                        k += 1
                    if k < hi and text[k] in '.?':
                        bend = None          # `{ .. }.method()` - the body goes on: fall through to the general scan
                else:
                    bend = None
                if bend is None:
                    k = j
                    while k < hi:
                        c = text[k]
                        if mask[k]:
                            if c in '([{':
                                k = match_close(text, mask, k) + 1
                                continue
                            if c in ',;)]}':
                                break
                        k += 1
                    bend = k
                    while bend > j and text[bend - 1].isspace():
                        bend -= 1
                self.log.rw(e['rule'], rel, line0 + text.count('\n', 0, lo + m.start()), norm(e['frm']) + ' BODY',
                            norm(e['to']) + ' { ' + let_txt + ' BODY }')
                edits.append((lo + m.start(), m.end() - m.start(), e['to'] + ' { ' + let_txt + ' ', False))
                edits.append((bend, 0, ' }', False, 0))
            elif op == 'mapcollect':
                # rule R20: an iterator pipeline that ends in `collect` into a Vec is replaced by the loop std defines it by
                #   (a) `E.map(|p| BODY).collect()`                  -> .. Some(p) => { OUT.push(BODY); } ..
                #   (b) `E.enumerate().map(|(i, p)| BODY).collect()` -> .. Some(p) => { let i = CNT; CNT += 1; OUT.push(BODY); } ..     (Enumerate::next)
                #   (c) `E.filter(|p| COND).collect()`               -> .. Some(x) => { if { let p = &x; COND } { OUT.push(x); } } ..   (Filter::next)
                # framed as `{ let mut OUT = Vec::new(); let mut IT = E; loop SPEC { match IT.next() { Some(..) => {..} None => { break; } } } OUT }`:
                # next() until None, results pushed in order (Iterator::map / Enumerate / Filter + Vec's FromIterator).
                # E, the closure parameters and BODY / COND are repo text, untouched.  Verus has no closures capturing `&mut`, no
                # specification of `enumerate`, and only a prophetic one of `filter`; loops take invariants.
                if spec.external:
                    continue
                if e['anchor'] == 'auto':
                    # the one pipeline of the function: `<postfix chain> [.enumerate()] .map(|..| ..) / .filter(|..| ..) .collect..()`; its source
                    # expression is found structurally (walking the postfix chain backwards), so renamed parameters or a hoisted local keep the anchor
                    cands = []
                    for x in re.finditer(r'\.\s*(?:enumerate\s*\(\s*\)\s*\.\s*)?(?:map|filter)\s*\(\s*\|', seg):
                        if not mask[lo + x.start()]:
                            continue
                        po_ = lo + x.end() - 1
                        while text[po_] != '(':
                            po_ -= 1
                        pc_ = match_close(text, mask, po_)
                        if re.compile(r'\s*\.\s*collect\b').match(text, pc_ + 1):
                            cands.append(lo + x.start())
                    if len(cands) != 1:
                        raise LostAnchor('%s: fn %s: %d iterator pipelines ending in collect (rule R20 expects one)' % (rel, spec.name, len(cands)))
                    a1 = cands[0]
                    j = a1
                    while True:
                        k = j - 1
                        while k > bopen and text[k].isspace():
                            k -= 1
                        if text[k] in ')]':
                            depth = 0
                            while k > bopen:
                                if mask[k]:
                                    if text[k] in ')]':
                                        depth += 1
                                    elif text[k] in '([':
                                        depth -= 1
                                        if depth == 0:
                                            break
                                k -= 1
                            j = k
                            continue
                        if text[k] == '?':
                            j = k
                            continue
                        if text[k].isalnum() or text[k] == '_':
                            while text[k - 1].isalnum() or text[k - 1] == '_':
                                k -= 1
                            j = k
                            q = k - 1
                            while q > bopen and text[q].isspace():
                                q -= 1
                            if text[q] == '.':
                                j = q
                                continue
                            if text[q] == ':' and text[q - 1] == ':':
                                j = q - 1
                                continue
                            break
                        if text[k] == '>' :   # turbofish / generic arguments `::<..>`
                            depth = 0
                            while k > bopen:
                                if text[k] == '>':
                                    depth += 1
                                elif text[k] == '<':
                                    depth -= 1
                                    if depth == 0:
                                        break
                                k -= 1
                            j = k
                            continue
                        break
                    a0 = j
                    if a0 >= a1:
                        raise LostAnchor('%s: fn %s: cannot delimit the source expression of the pipeline' % (rel, spec.name))
                else:
                    ms = [x for x in flex(e['anchor']).finditer(seg) if mask[lo + x.start()]]
                    if len(ms) != 1:
                        raise LostAnchor('%s: fn %s: pipeline source `%s` found %d times' % (rel, spec.name, e['anchor'], len(ms)))
                    m = ms[0]
                    a0, a1 = lo + m.start(), lo + m.end()
                pos = a1
                men = re.compile(r'\s*\.\s*enumerate\s*\(\s*\)').match(text, pos)
                if men:
                    pos = men.end()
                mm = re.compile(r'\s*\.\s*(map|filter)\s*\(\s*\|\s*(?:\(\s*([A-Za-z_]\w*)\s*,\s*([A-Za-z_]\w*)\s*\)|([A-Za-z_]\w*))\s*\|\s*').match(text, pos)
                if not mm or bool(men) != bool(mm.group(2)) or (men and mm.group(1) != 'map'):
                    raise LostAnchor('%s: fn %s: `%s` is not followed by one of the pipeline shapes of rule R20' % (rel, spec.name, e['anchor']))
                po = text.index('(', mm.start() + text[mm.start():].index(mm.group(1)))
                pc = match_close(text, mask, po)
                mc = re.compile(r'\s*\.\s*collect\s*(?:::\s*<\s*Vec\s*<\s*_\s*>\s*>\s*)?\(\s*\)').match(text, pc + 1)
                if not mc:
                    raise LostAnchor('%s: fn %s: the pipeline does not end in `.collect()` / `.collect::<Vec<_>>()`' % (rel, spec.name))
                slots = {'spec': [], 'pre': [], 'iter': [], 'item': [], 'post': [], 'end': []}
                for l in e['lines']:
                    ms_ = re.match(r'@(pre|iter|item|post|end)\s?(.*)$', l)
                    if ms_:
                        slots[ms_.group(1)].append(ms_.group(2))
                    else:
                        slots['spec'].append(l)
                OUT, IT, CNT = e['out'], e['it'], e['cnt']
                kind_p = mm.group(1)
                P = mm.group(3) if men else mm.group(4)
                body_txt = text[mm.end():pc].rstrip()
                decl = '{ let mut %s%s = Vec::new(); ' % (OUT, (': ' + e['ty']) if e.get('ty') else '')
                if men:
                    decl += 'let mut %s: usize = 0; ' % CNT
                if kind_p == 'map':
                    head = 'Some(%s) => {' % P + (' let %s = %s; %s += 1;' % (mm.group(2), CNT, CNT) if men else '')
                    arm_a, arm_b = '%s.push(' % OUT, ');'
                    shape = '%s %s.push(%s); }' % (head, OUT, norm(body_txt))
                else:
                    X = e['item']
                    head = 'Some(%s) => {' % X
                    arm_a, arm_b = 'if { let %s = &%s; ' % (P, X), ' } { %s.push(%s); }' % (OUT, X)
                    shape = '%s if { let %s = &%s; %s } { %s.push(%s); } }' % (head, P, X, norm(body_txt), OUT, X)
                self.log.rw(e['rule'], rel, line0 + text.count('\n', 0, a0), norm(text[a0:mc.end()]),
                            '%slet mut %s = %s; loop { match %s.next() { %s None => { break; } } } %s }' % (decl, IT, norm(text[a0:a1]), IT, shape, OUT))
                edits.append((a0, 0, decl + 'let mut %s = ' % IT, False, 2))   # after any ghost text anchored before the tail
                edits.append((a1, mm.end() - a1, ';' + ghost(slots['pre']) + 'loop' + ghost(slots['spec']) + '{' + ghost(slots['iter']) + 'match %s.next() { %s' % (IT, head) + ghost(slots['item']) + arm_a, False))
                edits.append((pc, mc.end() - pc, arm_b + ghost(slots['post']) + '} None => { break; } } }' + ghost(slots['end']) + OUT + ' }', False))
                spec.ghost_lines += len(e['lines'])
            elif op == 'rewrite':
                if spec.external and e['rule'] not in ('RET', 'SIG'):
                    continue
                if e.get('optional') and e['rule'] in skipped_groups:
                    continue       # optional rewrites of one rule form a group: all or none
                try:
                    m = find_anchor(seg, e['frm'], None)
                except LostAnchor:
                    if e.get('optional'):
                        skipped_groups.add(e['rule'])
                        continue   # the construct this rewrite exists for is gone; verify the text as it is
                    raise
                self.log.rw(e['rule'], rel, line0 + text.count('\n', 0, lo + m.start()), norm(e['frm']), norm(e['to']))
                edits.append((lo + m.start(), m.end() - m.start(), e['to'], False))
        # rule R7: `fn f(mut self, ..) { B }` -> `fn f(self, ..) { let mut this = self; B[self := this] }`
        if has_body and not spec.external:
            msig = re.search(r'\(\s*mut\s+self\b', text[:body_open])
            if msig:
                a = text.index('mut', msig.start())
                edits.append((a, len('mut') + 1, '', False))
                edits.append((body_open + 1, 0, ' let mut this = self;', False))
                n_self = 0
                for mm in re.finditer(r'\bself\b', text[body_open:]):
                    pos = body_open + mm.start()
                    if mask[pos]:
                        edits.append((pos, 4, 'this', False))
                        n_self += 1
                self.log.rw('R7', rel, line0, 'fn %s(mut self, ..) { B }' % spec.name,
                            'fn %s(self, ..) { let mut this = self; B[self := this] }  (%d occurrences)' % (spec.name, n_self))
        # rule R6: Verus' for-loops do not support `continue`.  Inside a loop body
        #   `let P = E else { continue };  REST`   ->  `if let P = E { REST }`
        #   `if C { continue; }  REST`             ->  `if C {} else { REST }`
        # (REST = everything up to the end of the enclosing block; the `continue` must be the whole block)
        if has_body and not spec.external:
            for rx, kind6 in ((re.compile(r'\blet\s+([^;{}]*?)\s+else\s*\{\s*continue\s*;?\s*\}\s*;'), 'letelse'),
                              (re.compile(r'\bif\s+([^;{}]*?)\s*\{\s*continue\s*;\s*\}'), 'ifcont')):
                for m6 in rx.finditer(text, body_open):
                    if not mask[m6.start()]:
                        continue
                    # closing brace of the enclosing block
                    depth, j = 0, m6.end()
                    while j < len(text):
                        if mask[j]:
                            if text[j] in '{([':
                                depth += 1
                            elif text[j] in '})]':
                                if depth == 0:
                                    break
                                depth -= 1
                        j += 1
                    if kind6 == 'letelse':
                        rep = 'if let %s {' % m6.group(1)
                    else:
                        rep = 'if %s {} else {' % m6.group(1)
                    edits.append((m6.start(), m6.end() - m6.start(), rep, False, 1))
                    edits.append((j, 0, '} ', False, -1))
                    self.log.rw('R6', rel, line0 + text.count('\n', 0, m6.start()), norm(m6.group(0)), rep + ' <rest of block> }')
        # rule R14: a nested `const _: () = { .. };` item (compile-time assertions emitted by a derive) has no run-time effect
        if has_body and not spec.external:
            for m14 in re.finditer(r'(?:#\[[^\]]*\]\s*)*const\s+_\s*:\s*\(\)\s*=\s*\{', text[body_open:]):
                st = body_open + m14.start()
                if not mask[body_open + m14.end() - 1]:
                    continue
                cl = match_close(text, mask, body_open + m14.end() - 1)
                j = cl + 1
                while j < len(text) and text[j].isspace():
                    j += 1
                if j < len(text) and text[j] == ';':
                    edits.append((st, j + 1 - st, '', False))
                    self.log.rw('R14', rel, line0 + text.count('\n', 0, st), 'const _: () = { .. %d bytes of compile-time assertions .. };' % (j - st), '(dropped)')
        # rule R16: `return (move || { B })();` -> `return { B };`  - an immediately invoked closure whose result is returned at once:
        # an inner `return e` leaves the closure with e, which the outer `return` hands on, so it may leave the function directly.
        # (Verus does not support closures capturing a mutable reference; the codec derive emits this shape in enum decoders.)
        if has_body and not spec.external:
            n16 = 0
            for m16 in re.finditer(r'\breturn\s*\(\s*move\s*\|\|\s*(?=\{)', text[body_open:]):
                st = body_open + m16.start()
                ob = body_open + m16.end()
                if not mask[ob]:
                    continue
                cb = match_close(text, mask, ob)
                mt = re.match(r'\s*\)\s*\(\s*\)\s*;', text[cb + 1:])
                if not mt:
                    continue
                edits.append((st, ob - st, 'return ', False))
                edits.append((cb + 1, mt.end(), ';', False))
                n16 += 1
            if n16:
                self.log.rw('R16', rel, line0, 'return (move || { B })();  (%d occurrences)' % n16, 'return { B };')
        # rule R17: alpha-rename the function's own type parameters to the names the trait declaration uses (this Verus build binds
        # inherited `ensures` by NAME and crashes / mis-binds when an impl method renames a type parameter of the trait method)
        if spec.tparams:
            mg = re.search(r'\bfn\s+' + re.escape(spec.name) + r'\s*<', text)
            if mg:
                depth, j, start, names = 1, mg.end(), mg.end(), []
                while j < len(text) and depth:
                    c = text[j]
                    if c in '<([':
                        depth += 1
                    elif c in '>)]':
                        depth -= 1
                    if (c == ',' and depth == 1) or depth == 0:
                        mm = re.match(r"\s*(?:const\s+)?([A-Za-z_]\w*)", text[start:j])
                        if mm and not text[start:j].lstrip().startswith("'"):
                            names.append(mm.group(1))
                        start = j + 1
                    j += 1
                for old, new in zip(names, spec.tparams):
                    if old == new:
                        continue
                    for mo in re.finditer(r'(?<![\w:.])' + re.escape(old) + r'\b', text):
                        if mask[mo.start()]:
                            edits.append((mo.start(), len(old), new, False))
                    self.log.rw('R17', rel, line0, 'fn %s<%s ..>' % (spec.name, old), 'fn %s<%s ..>  (type parameter renamed throughout the function)' % (spec.name, new))
        if spec.params:
            mg = re.search(r'\bfn\s+' + re.escape(spec.name) + r'\b', text)
            po = text.index('(', _skip_generics(text, mg.end()))
            pc = match_close(text, mask, po)
            depth, start, names = 0, po + 1, []
            for j in range(po + 1, pc + 1):
                c = text[j]
                if c in '<([{':
                    depth += 1
                elif c in '>)]}' and j < pc:
                    depth -= 1
                if (c == ',' and depth == 0) or j == pc:
                    piece = text[start:j]
                    if piece.strip() and not re.match(r'\s*(?:&\s*(?:\'\w+\s+)?)?(?:mut\s+)?self\b', piece):
                        mm = re.match(r'\s*(?:mut\s+)?([A-Za-z_]\w*)\s*:', piece)
                        names.append(mm.group(1) if mm else None)
                    start = j + 1
            for old, new in zip(names, spec.params):
                if new == '_' or old is None or old == new:
                    continue
                for mo in re.finditer(r'(?<![\w.])' + re.escape(old) + r'\b', text):
                    if mask[mo.start()]:
                        edits.append((mo.start(), len(old), new, False))
                self.log.rw('R17', rel, line0, 'fn %s(.. %s ..)' % (spec.name, old), 'fn %s(.. %s ..)  (parameter renamed throughout the function to the name the contract uses)' % (spec.name, new))
        if kind == 'twinfn' and spec.twin_as:
            m = re.search(r'\bfn\s+' + re.escape(spec.name) + r'\b', text)
            edits.append((m.start(), m.end() - m.start(), 'fn ' + spec.twin_as, False))
            self.log.rw('R12', rel, line0, 'fn %s (method of a trait impl)' % spec.name,
                        'fn %s (inherent method, identical text; the trait-impl method itself is left external with the trait contract)' % spec.twin_as)
        # --- signature: name the return value, insert spec lines
        sig_end = body_open if has_body else text.rstrip().rfind(';')
        if spec.spec:
            arrow = self._find_arrow(text, mask, sig_end)
            if arrow is not None:
                t0, t1 = arrow
                rt = text[t0:t1].strip()
                if kind == 'twinfn':
                    mt = re.match(r'impl(?:<[^>]*>)?\s+(\w+)(?:<[^>]*>)?\s+for\b', norm(free_src[1]))
                    if mt and 'Self::' in rt:
                        rt2 = re.sub(r'\bSelf::(\w+)', r'<Self as %s>::\1' % mt.group(1), rt)
                        self.log.rw('R12', rel, line0, rt, rt2)
                        rt = rt2
                if not rt.startswith('(' + spec.ret + ':'):
                    edits.append((t0, t1 - t0, ' (%s: %s)' % (spec.ret, rt), False))
                    self.log.rw('RET', rel, line0 + text.count('\n', 0, t0), '-> ' + rt, '-> (%s: %s)' % (spec.ret, rt))
            ins = '\n' + '\n'.join(indent + '    ' + l for l in spec.spec) + '\n' + indent
            edits.append((sig_end, 0, ins, True))
            spec.ghost_lines += len(spec.spec)
        if spec.external and has_body:
            close = it.end - 1 - it.attr_end
            edits = [e for e in edits if e[0] <= body_open]
            edits.append((body_open, close + 1 - body_open, '{ unimplemented!() }', False))
        # apply
        edits.sort(key=lambda e: (e[0], 1 if e[1] > 0 else 0, e[4] if len(e) > 4 else 1))
        # check overlaps
        res, cur = [], 0
        for pos, dl, ins, ghost in [e[:4] for e in edits]:
            if pos < cur:
                raise ValueError('%s: overlapping edits in fn %s' % (rel, spec.name))
            res.append(global_rules(text[cur:pos], rel, line0 + text.count('\n', 0, cur), self.log, keep_derive=False))
            res.append(ins)
            cur = pos + dl
        res.append(global_rules(text[cur:], rel, line0 + text.count('\n', 0, cur), self.log, keep_derive=False))
        new = ''.join(res)
        attrs = list(spec.attrs)
        if spec.external and has_body:
            attrs.append('#[verifier::external_body]')
        for a in attrs:
            self.out.emit(indent + a, 'ins', oname, rel, line0)
        self.out.emit(indent + new, 'repo', oname, rel, line0)
        self.log.insertions += spec.ghost_lines
        self.log.items.append(dict(kind='fn', name=oname, file=rel, line=line0,
                                   end_line=src.line_of(it.end), external=bool(spec.external and has_body),
                                   declared_only=not has_body, ghost_lines=spec.ghost_lines, shape=fn_shape(text, mask),
                                   sha=hashlib.sha1(norm(src.text[it.attr_end:it.end]).encode()).hexdigest()[:12]))
        if not (spec.external and has_body):
            self.obligation_items.append(oname)
            if has_body:
                # code text of the verified body (comments / strings blanked), for unit-level structural obligations (`forbid-call`)
                self.fn_code = getattr(self, 'fn_code', {})
                self.fn_code[oname] = ''.join(c if m_ else ' ' for c, m_ in zip(text[body_open:], mask[body_open:]))

    @staticmethod
    def _find_arrow(text, mask, sig_end):
        """span of the return type in a signature: after the top-level `->` up to `where` / body"""
        depth = 0
        i = 0
        arrow = None
        while i < sig_end:
            if mask[i]:
                c = text[i]
                if c in '([<':
                    depth += 1
                elif c in ')]':
                    depth -= 1
                elif c == '>' and text[i - 1] != '-':
                    depth -= 1
                elif c == '-' and text[i + 1] == '>' and depth == 0 and arrow is None:
                    arrow = i + 2
            i += 1
        if arrow is None:
            return None
        m = re.search(r'\bwhere\b', text[arrow:sig_end])
        end = arrow + m.start() if m else sig_end
        return arrow, end


# ------------------------------------------------------------------------------------------

def expanded_source(repo, cache_dir, features=None):
    """macro-expanded src/lib.rs of the current working tree (rustc does the expansion); features=None: the crate's default features"""
    h = hashlib.sha1()
    if features is not None:
        h.update(('features=' + ','.join(sorted(features))).encode())
    for root, _, files in sorted(os.walk(os.path.join(repo, 'src'))):
        for f in sorted(files):
            if f.endswith('.rs'):
                h.update(f.encode())
                h.update(open(os.path.join(root, f), 'rb').read())
    h.update(open(os.path.join(repo, 'Cargo.toml'), 'rb').read())
    key = h.hexdigest()[:16]
    os.makedirs(cache_dir, exist_ok=True)
    path = os.path.join(cache_dir, 'expanded-%s.rs' % key)
    if not os.path.exists(path):
        tdir = os.path.join(cache_dir, 'expand-target')
        env = dict(os.environ, CARGO_NET_OFFLINE='true', CARGO_TARGET_DIR=tdir)
        fl = (['--no-default-features'] + (['--features', ','.join(sorted(features))] if features else [])) if features is not None else []
        p = subprocess.run(['cargo', '+nightly', 'rustc', '--lib', '--offline'] + fl + ['--', '-Zunpretty=expanded'],
                           cwd=repo, env=env, stdout=subprocess.PIPE, stderr=subprocess.PIPE, text=True)
        if p.returncode != 0:
            raise LostAnchor('macro expansion by rustc failed:\n' + p.stderr[-2000:])
        open(path, 'w').write(p.stdout)
    return Source(path)
