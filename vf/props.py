"""Which obligations decide which property.

For every claimed property: the Verus units (and feature configurations) to extract and verify,
the patterns selecting the items (real functions under contract, lemmas) whose obligations belong
to the property, and the Kani harnesses of each tier.  Items of a unit that match no pattern of a
property are still verified in the same run but do not decide that property.
"""

# unit -> list of (suffix, features)
UNIT_CONFIGS = {
    'interner': [('', ('std',))],
    'registry': [('', ('std',))],
    'portable': [('', ('std',))],
    'retain': [('', ('std',))],
    'registry_impls': [('', ('std',))],
    'codec': [('', ('std',))],
    # the serde attributes are cfg_attr'd: verified with and without the features that could gate them (docs, schema, decode, bit-vec)
    'serde': [('', ('std', 'serde')), ('-docs', ('std', 'serde', 'docs')), ('-all', ('std', 'serde', 'decode', 'bit-vec', 'schema'))],
    'path': [('', ('std',)), ('-nostd', ()), ('-all', ('std', 'serde', 'decode', 'bit-vec', 'schema', 'docs'))],
    'build': [('-docs', ('std', 'docs')), ('-nodocs', ('std',))],
    'metatype': [('', ('std',))],
    'alias': [('', ('std', 'bit-vec'))],    # the three impls of `mod bit_vec` exist only with the feature
}

# functions for which the end of the body is legitimately unreachable or where a canary at the end
# makes no sense: canary goes to the start of the body instead
CANARY_AT_START = set()

STD_ASSUMPTIONS = {
    'A1': 'ASSUMED contract on std BTreeMap entry API (entry / VacantEntry::insert / OccupiedEntry::get) with two '
          'resolution axioms (an entry dropped unused leaves the map unchanged) - written for this project, vstd has none',
    'A2': 'ASSUMED: BTreeMap iterates in ascending key order',
    'A3': 'ASSUMED contract on core::mem::replace (returns *old(dest), stores src)',
    'A4': 'ASSUMED: TypeId is opaque with lawful Eq/Ord; TypeId::of::<A>() == TypeId::of::<B>() iff A and B are the same type',
    'A5': 'ASSUMED: lawful Ord (vstd key_obeys_cmp_spec) and Clone (clone returns an equal value) for the key types '
          '(derived impls of TypeId, UntrackedSymbol, Type<PortableForm>) - explicit preconditions of the Interner operations',
    'A6': 'ASSUMED: String: From<&\'static str> preserves the characters (uninterpreted injective spec function)',
    'A7': 'machine integers: Verus checks overflow; `as u32` casts of lengths truncate in the real code beyond 2^32 entries, '
          'so every id clause is stated relative to capacity cap_ok(len) := len <= 2^32',
    'VSTD': 'vstd specifications of Vec, slice, Option, BTreeMap::{new,insert,get,contains_key}, Seq/Map/Set libraries (trusted, shipped with Verus). Known hole of that base: vstd gives '
            'Vec::with_capacity / Vec::reserve no precondition, so a capacity-overflow panic (with_capacity(usize::MAX)) is invisible to every "cannot panic" conclusion drawn here',
    'A8': 'ASSUMED contract on <[T]>::to_vec (returns the same sequence); only instantiation T = &\'static str',
    'A9': 'ASSUMED: MetaType::type_info() is deterministic and depends only on the declared identity (info_of(type_id)) - the coherence half of C16 for '
          'user-written impls; MetaType is opaque in the registry units (rule R9), its accessors carry the contracts proved in unit metatype',
    'A10': 'ASSUMED effect of <TypeId as Hash>::hash (uninterpreted relation hashed(before, id, after))',
    'CODEC': 'ASSUMED model of the dependency parity-scale-codec (declaration-only stand-in module `scale` in the codec unit): traits Encode / Decode / Input / Output '
             'with the contracts "encode_to appends enc(self)", "decode is sound, canonical and complete w.r.t. denc", and the encodings of u8, u32 (LE), Compact<u32> '
             '(1/2/4/5-byte classes), String (compact byte length + UTF-8, utf8 uninterpreted), Option, Vec, PhantomData, &T. The codec derive is trusted to emit what rustc '
             'expands (the expansion itself is taken from rustc on every run).',
    'SERDE': 'ASSUMED model of the dependencies serde / serde_json (declaration-only stand-in module `_serde` in the serde unit): traits Serializer / '
             'SerializeStruct / Serialize with the contracts "a serializer hands back what represents exactly the JSON value it was fed" (uninterpreted '
             'relation produced(ok, j) keyed by the Ok type), the Serialize impls of u8, u32, String, Option, Vec, &T, and serde_json\'s documented mapping of the '
             'serde data model to JSON (struct -> object with the serialized fields in order and skipped fields absent, newtype variant -> {"variant": value}, '
             'unit variant -> "variant", seq -> array, None -> null). The `len` argument of serialize_struct is not constrained. The serde derive is trusted to '
             'emit what rustc expands (the expansion is taken from rustc with feature serde on every run).',
    'A11': 'ASSUMED contracts (written for this project, vstd has none) on std string / slice-iterator functions: str::strip_prefix for a &str pattern (Some(rest) exactly when the '
           'string starts with the pattern), u8::is_ascii_lowercase / is_ascii_uppercase / is_ascii_digit (the three byte ranges), <[T]>::split_last, Iterator::position and Iterator::last of '
           'core::slice::Iter (in terms of the elements the iterator will yield; position through the contract of the closure value passed in). Cross-checked, within bounds, by the Kani harnesses '
           'that run the same callers on the real std code.',
    'A12': 'ASSUMED (rule R20): `E.map(f).collect::<Vec<_>>()`, `E.enumerate().map(f).collect()` and `E.filter(p).collect()` compute what the loop '
           '`let mut it = E; loop { match it.next() { Some(x) => push .., None => break } }` computes (Iterator::map / Enumerate::next / Filter::next followed by '
           'Vec: FromIterator: next() until None, one call of the closure per item, results kept in order) - the definition of these std adaptors; capacity '
           'hints are not modelled. Four functions are verified in that loop form: Registry::register_types, Registry::map_into_portable, '
           'PortableRegistryBuilder::finish, TypeDefTuple::new; Kani (map_into_portable_in_order) and the native leg run the original pipelines on the real std code.',
    'PARTIAL': 'termination of Registry::register_type is NOT proved (depends on finiteness of the Rust type graph); the registry recursion carries '
               'exec_allows_no_decreases_clause, so the registry units are partial-correctness proofs; absence of stack overflow is not proved anywhere',
    'MODULAR': 'the mutual recursion register_type <-> into_portable is cut modularly into two Verus units (registry / registry_impls) sharing one contract text, '
               'because Verus rejects the trait-dictionary cycle; four trait-impl methods (Path, Field, Variant, Type) are verified as identical-text inherent twins (rule R12)',
    'TOOLS': 'Verus 0.2026.09.13 + Z3; rustc (macro expansion per feature set, -Zunpretty=expanded); the extractor (syntactic; global rules R1-R4, R6, R7, R9-R11, R14-R18 and the template-directed R19, R20 plus the '
             'template-directed rewrites RET, R8, R12, R13, HDR - every application is logged in coverage.extraction.rewrites)',
}


INTERNER_ITEMS = ['Interner<T>::*', "Symbol<'_, T>::into_untracked", 'From<u32> for UntrackedSymbol<T>::from', 'UntrackedSymbol<T>::id', 'Default for Interner<T>::default']
REGISTRY_ITEMS = ['Registry::new', 'Default for Registry::default', 'Registry::intern_type_id', 'Registry::register_type', 'Registry::register_types', 'Registry::map_into_portable']
IMPL_ITEMS = ['IntoPortable for *::into_portable']

PROPS = {
    'C01': dict(
        title='Every produced registry is dense and closed under references',
        level='proof',
        technique='Verus data-structure invariant + trait-level contract on every into_portable impl; retain closure/cardinality contract; register_types / map_into_portable / finish verified as the loops that define their iterator pipelines (rule R20)',
        level_text='Registry::inv (every stored definition is filed under an in-range id and all ids it mentions are in range) and the pay-back clause (a call leaves a definition for exactly the ids it interned) are proved for register_type / intern_type_id and inherited by all 14 IntoPortable impls with MetaType::type_info() unconstrained, so density and closure hold after every top-level call for every type with type info (lemma_dense_step, lemma_dense_closed); resolve returns exactly the entry at the position; the builder is proved a duplicate-free list; retain on a well-formed registry is proved to return a well-formed registry (reg_wf: entry i carries id i and every referenced id resolves; see C10).',
        level_note='Assumed contracts: BTreeMap entry API, lawful Ord/Clone of key types, mem::replace. Registry::register_types, Registry::map_into_portable (closures capturing &mut inside map().collect()) and PortableRegistryBuilder::finish (enumerate) are no longer external: they are verified after rule R20 (an iterator pipeline ending in collect into a Vec is replaced by the loop std defines it by: next() until None, results pushed in order), with loop invariants; the Kani harness map_into_portable_in_order and the native histories run them on the real std iterators as a cross-check of that rule. TypeParameter::into_portable is verified after rule R19 (Option::map on a closure literal replaced by its definition, a match). From<Registry> for PortableRegistry IS verified (as an identical-text inherent twin, tuple-pattern closure rewritten to a let, rule R8) under the assumption that BTreeMap iterates in ascending key order. Registries obtained by decoding the output of the library: by theorem_roundtrip (unit codec, C07) the decoded value EQUALS the encoded registry, so it inherits density and closure - that theorem is part of the obligations of this property only through C07, not re-proved here. The closure clause (every mentioned id resolves) is NOT claimed for registries assembled through the runtime builder: the builder stores whatever Type<PortableForm> values it is handed, dangling ids included - for finish only "entry i carries id i and the i-th value" is proved. theorem_from_registry_dense closes the chain for From<Registry>: a dense map has exactly len entries (lemma_dense_card), hence entry i of the conversion carries id i and the definition filed under i. Partial correctness for registration. All id guarantees up to 2^32 entries.',
        verus=[('interner', INTERNER_ITEMS), ('registry', REGISTRY_ITEMS + ['tmpl::lemma_dense_*', 'tmpl::lemma_img_closed', 'tmpl::lemma_*_mono']),
               ('registry_impls', IMPL_ITEMS),
               ('portable', ['PortableRegistry::resolve', 'PortableRegistry::types', 'PortableRegistryBuilder::*', 'PortableType::*', 'Registry::types',
                             '::core::default::Default for PortableRegistryBuilder::default',
                             'From<Registry> for PortableRegistry::from', 'tmpl::lemma_from_registry_dense', 'tmpl::lemma_sorted_*', 'tmpl::lemma_dense_card', 'tmpl::theorem_from_registry_dense']),
               ('retain', ['PortableRegistry::retain', 'tmpl::lemma_*'])],
        kani_quick=['builder_new_is_empty', 'map_into_portable_in_order'],
        kani_thorough=['builder_new_is_empty', 'map_into_portable_in_order', 'std_map_collect_is_the_loop', 'std_enumerate_collect_is_the_loop'],
        assumptions=['A1', 'A2', 'A3', 'A4', 'A5', 'A6', 'A7', 'A9', 'PARTIAL', 'MODULAR', 'A12', 'VSTD', 'TOOLS'],
    ),
    'C02': dict(
        title='Portable form is a faithful image of the compile-time definition',
        level='proof',
        technique='Verus: image_of postcondition (structural relation over all 8 definition kinds) on every into_portable impl and on register_type; invariant over the registry',
        level_text='The trait contract ensures image_of(self, out, final table): path segments, parameter names, field names/order/type names, variant names/indices, docs and array lengths equal, sequences related element-wise in order, each reference an in-range id whose table entry is the identity of the referenced MetaType. register_type ensures the returned id resolves to the type\'s identity, and Registry::inv states that every stored definition is the image of info_of(identity) w.r.t. the current table (stable under growth: proved monotonicity lemmas). Holds for recursive and mutually recursive types because type_info() is an unconstrained external function.',
        level_note='Termination of registration is NOT proved (partial correctness; the 14 into_portable impls carry exec_allows_no_decreases_clause like register_type, so even a directly self-recursive conversion is invisible to the proof - only the native leg, by timing out, and never as a violation). Coherence assumption A9 (type_info deterministic per identity). String conversion &str -> String assumed to preserve characters. register_types / map_into_portable are verified after rule R20 (an iterator pipeline ending in collect into a Vec is replaced by the loop std defines it by: next() until None, results pushed in order) - Kani-bounded order check for map_into_portable on the real iterators as a cross-check; TypeParameter::into_portable is verified (rule R19). For the types of src/impls.rs the coherence assumption is discharged by unit alias (every impl that shares an identity forwards its definition), which is part of this check.',
        verus=[('registry', REGISTRY_ITEMS + ['tmpl::lemma_*']), ('registry_impls', IMPL_ITEMS + ['tmpl::lemma_*']), ('alias', ['TypeInfo for *', 'tmpl::identity::*'])],
        kani_quick=['map_into_portable_in_order', 'std_string_from_and_to_vec_small'], kani_thorough=['map_into_portable_in_order', 'std_string_from_and_to_vec_small', 'std_map_collect_is_the_loop'],
        assumptions=['A4', 'A5', 'A6', 'A7', 'A9', 'PARTIAL', 'MODULAR', 'A12', 'VSTD', 'TOOLS'],
    ),
    'C05': dict(
        title='One entry per distinct type: aliases share an id, distinct types never merge',
        level='proof',
        technique='Verus: interner duplicate-freeness + register_type "present => unchanged" postcondition + ghost evaluation counter; minimality clause of the trait contract and theorem_exactly_reachable (interned iff reachable from a registered root); generic identity obligations generated per TypeInfo impl (rustc-expanded)',
        level_text='register_type ensures: identity already present => table and definitions unchanged and the existing id returned; a ghost counter asserted before the .type_info() call of register_type proves the definition is evaluated at most once per call and only for an identity absent on entry; structural obligations (no_call::type_info, one per verified function of the registry units) state that this is the ONLY call of type_info in any spelling - register_type may contain one, every other Registry function and all 14 into_portable impls none. For every TypeInfo impl of src/impls.rs (macro-generated ones and the three of the nested bit-vec module included; the unit runs with features std + bit-vec) a generic proof obligation is generated: transparent wrappers (Box, Rc, Arc, &, &mut, Vec, VecDeque, String, PhantomData) have the identity of their target for ALL type arguments incl. nested ones, every other impl has identity Self (with TypeId injectivity: never shares an id); MetaType::new is proved to store TypeId::of::<T::Identity>(). "Exactly one entry per identity REACHABLE from what was registered": theorem_exactly_reachable - in a registry rooted in the registered identities (history invariant, lemma_rooted_step) an identity is interned if and only if it is reachable from a root; no other entry is ever created (minimality clause of the trait contract, proved for the Registry functions and all 14 impls).',
        level_note='TypeId::of injectivity is an assumption about std (A4). Derived impls (`type Identity = Self` emitted by the proc-macro) and user-written impls are outside the obligations.',
        verus=[('interner', INTERNER_ITEMS), ('registry', ['Registry::intern_type_id', 'Registry::register_type', 'Registry::register_types', 'Registry::map_into_portable', 'tmpl::lemma_one_entry_per_identity', 'tmpl::theorem_exactly_reachable', 'tmpl::lemma_rooted_*', 'tmpl::lemma_reach_*', 'tmpl::lemma_path_closed', 'tmpl::lemma_succ_closed', 'tmpl::lemma_img_mentions', 'tmpl::lemma_type_reaches', 'tmpl::no_call::*']), ('registry_impls', IMPL_ITEMS + ['tmpl::no_call::*']),
               ('alias', ['TypeInfo for *', 'tmpl::identity::*']), ('metatype', ['MetaType::new', 'MetaType::type_id'])],
        kani_quick=['metatype_new_identity'], kani_thorough=['metatype_new_identity'],
        assumptions=['A1', 'A4', 'A5', 'A7', 'A9', 'PARTIAL', 'MODULAR', 'A12', 'VSTD', 'TOOLS'],
    ),
    'C10': dict(
        title='retain keeps exactly the reachable sub-registry, renumbered consistently',
        level='proof',
        technique='Verus: recursive function contract with decreases measure on the extracted retain / retain_type, loop invariants on all seven loops',
        level_text='Proved on the real text of retain and its nested retain_type, for every well-formed registry and every filter (an arbitrary FnMut): no out-of-bounds access; termination on cyclic graphs (decreases n - |mapping|); the result is again well-formed (entry i carries id i, every referenced id resolves); the returned map is injective, its domain has as many elements as the new registry, every new id has a pre-image (bijection onto the new ids); every retained entry equals its original with each referenced id replaced through the map and nothing else changed (entry_ren over all eight definition kinds, parameters, fields and variant fields) - so everything a retained entry references is retained too; every id the filter accepts is retained, and every retained id is reachable in the old registry from an accepted id (accepted_retained / retained_reachable).',
        level_note='The filter is an arbitrary FnMut; Verus models each call as replacing the closure state, so "accepts i" is phrased over fs[i], the state the filter had when it was asked about i - for a filter whose answers do not depend on hidden state this is the statement as given. Loop invariants on all seven loops; rule R6 (continue in for-loops). Assumed: mem::replace contract (A3), vstd BTreeMap specs, machine integers (A7).',
        verus=[('retain', ['PortableRegistry::retain', 'tmpl::lemma_*'])],
        # complete cross-check of the one std contract retain depends on (A3), on the real core::mem::replace
        kani_quick=['std_mem_replace_u32'], kani_thorough=['std_mem_replace_u32'],
        assumptions=['A3', 'A7', 'VSTD', 'TOOLS'],
    ),
    'C11': dict(
        title='Ids are stable and metadata is reproducible',
        level='proof',
        technique='Verus: `extends` postcondition (table prefix-extended, old definitions untouched) and minimality postcondition (everything interned is reachable from what was converted) on every registry operation; history invariant `rooted`; order-independence theorem up to renaming',
        level_text='Clause 1 (every later state extends earlier ones without renumbering or altering existing entries) is the `extends` clause of the trait contract, proved for register_type, intern_type_id and inherited by every into_portable impl; lemma_extends_trans / lemma_id_stable lift it to arbitrary histories. Clause 3 is proved in this form: lemma_order_independent - any two registry states satisfying the (proved) invariant that have interned the same SET of identities hold, for each identity, definitions that are equal up to the renaming m between their tables (type_sim over all eight definition kinds, strings by characters), and m is a bijection between their id ranges; it follows from lemma_two_images (two portable images of one definition w.r.t. two duplicate-free tables differ exactly by the renaming). The premise is proved too: the trait contract carries a minimality clause (every identity a call interns is reachable, along the mentions of the compile-time definitions, from an identity the converted value mentions), proved for register_type / register_types / map_into_portable and all 14 impls; lemma_rooted_new / lemma_rooted_step turn it into the history invariant "the registry is rooted in the set of identities registered so far", lemma_reach_closed proves a dense registry closed under reachability, theorem_same_identities concludes that two registries rooted in the same set hold the same identities, and theorem_order_independent puts the pieces together: the same set of roots registered in any two orders yields registries of the same size that agree up to the renaming of ids.',
        level_note='Clause 2 (byte-identical replay) is not contract-shaped: it follows from determinism of safe single-threaded Rust with no address- or hash-dependent iteration (assumption, not proved). Clause 3 is stated for roots registered through register_type (lemma_rooted_step consumes exactly its postconditions); register_types / map_into_portable carry the same minimality clause. The native leg (all pairs of pool types with recursive roots, both orders) runs alongside as a bounded cross-check. Reachability is over info_of, i.e. relies on A9 (a declared identity determines the definition) - discharged for src/impls.rs by unit alias.',
        verus=[('registry', REGISTRY_ITEMS + ['tmpl::lemma_extends_*', 'tmpl::lemma_id_stable', 'tmpl::lemma_prefix_trans', 'tmpl::lemma_order_independent', 'tmpl::lemma_two_images', 'tmpl::lemma_ref_two', 'tmpl::lemma_fields_two', 'tmpl::theorem_*', 'tmpl::lemma_rooted_*', 'tmpl::lemma_reach_*', 'tmpl::lemma_path_closed', 'tmpl::lemma_succ_closed', 'tmpl::lemma_img_mentions', 'tmpl::lemma_type_reaches', 'tmpl::lemma_dense_closed']), ('registry_impls', IMPL_ITEMS), ('interner', INTERNER_ITEMS),
               # order independence presupposes that a declared identity determines the definition (coherence of the library's own impls)
               ('alias', ['TypeInfo for *', 'tmpl::identity::*'])],
        kani_quick=[], kani_thorough=[],
        assumptions=['A1', 'A4', 'A5', 'A7', 'PARTIAL', 'MODULAR', 'A12', 'VSTD', 'TOOLS'],
    ),
    'C12': dict(
        title='Runtime builder and interner behave as an append-only duplicate-free table',
        level='proof',
        technique='Verus contracts (abstract view = list, representation invariant) on the extracted Interner and PortableRegistryBuilder functions incl. finish (rule R20); history lemma',
        level_text='Every Interner and builder operation is proved, for all element types, values and prior states satisfying the representation invariant, to behave exactly like the duplicate-free list that is its abstract view (new value -> appended and the next free index, equal value -> its first index and nothing changes, get/resolve -> stored value or None); each operation requires only the invariant and re-establishes it, so the statement holds for every finite history (lemma_builder_history over operation scripts).',
        level_note='PortableRegistryBuilder::new IS verified (derived Default impl taken from the rustc expansion, Interner::default, Interner::new). finish (`elements().iter().enumerate().map(|(i, ty)| ..).collect()`) IS verified after rule R20 (an iterator pipeline ending in collect into a Vec is replaced by the loop std defines it by: next() until None, results pushed in order): entry i of the result carries id i and the i-th registered value; the native builder scripts run it on the real iterators (a Kani harness over <= 2 registrations did not finish in 40 minutes - BTreeMap keyed by Type<PortableForm> under CBMC - and was removed); Kani builder_new_is_empty cross-checks new on the real code. Assumed: BTreeMap entry API contract, lawful Ord/Clone of Type<PortableForm>. Ids guaranteed up to 2^32 entries.',
        verus=[('interner', INTERNER_ITEMS), ('portable', ['PortableRegistryBuilder::*', '::core::default::Default for PortableRegistryBuilder::default', 'tmpl::lemma_builder_history'])],
        kani_quick=['builder_new_is_empty', 'std_enumerate_collect_is_the_loop'], kani_thorough=['builder_new_is_empty', 'std_enumerate_collect_is_the_loop'],
        assumptions=['A1', 'A5', 'A7', 'A12', 'VSTD', 'TOOLS'],
    ),
    'C14': dict(
        title='Decoding untrusted registry bytes never panics and is canonical (SCALE decode and resolve clauses proved; JSON clause bounded only; memory not covered)',
        level='proof',
        technique='Verus: total-function contract on PortableRegistry::resolve; canonicity theorem and panic-freedom of the derive-generated decoders (no precondition, every callee precondition discharged); Kani: the dependency scalar decoders and the derived leaf decoders on every input (complete, loop-free); memory and JSON clauses bounded natively',
        level_text='resolve(id) is proved, for EVERY registry value and every u32, to return Some(entry at position id) when id is in range and None otherwise; it has no precondition, so it cannot panic. The 17 derive-generated decode functions are verified without any precondition on the input: Verus discharges every callee precondition and arithmetic check in them, so the crate\'s own decoding code cannot panic on any byte string and returns Ok or Err. theorem_canonical: whatever decodes successfully re-encodes to exactly the bytes that were consumed.',
        level_note='JSON deserialisation (serde-derive visitors driving serde_json) is NOT under contract: bounded native leg only (about 100k corrupted JSON texts: no panic, accepted texts are registries). Memory proportional to the input is NOT a contract here (no verifier in reach reasons about allocation): bounded native check only - a counting allocator records the largest single allocation request while every byte position of the small encodings is overwritten with the compact encodings of 100 000, 2^30 - 1 and u32::MAX; budget 1 MiB + 1 KiB per input byte. The dependency\'s primitive decoders are assumed to satisfy the Decode contract of the model (see C06); for Compact<u32>, u32 and Option that contract - and with it panic-freedom on every input - is discharged on the REAL dependency code by the complete Kani leaves dec_*_all_inputs (every input of at most 6 / 7 / 10 / 11 bytes, loop-free); Vec and String remain assumed. Stack depth is not considered.',
        verus=[('portable', ['PortableRegistry::resolve']), ('codec', ['crate::scale::Decode for *::decode', 'tmpl::lemma_*', 'tmpl::theorem_canonical'])],
        # complete Kani leaves: the real Compact<u32> decoder and the derived leaf decoders neither panic nor accept a non-canonical input, for every input
        kani_quick=['dec_compact_u32_all_inputs', 'dec_array_all_inputs'], kani_thorough=['dec_compact_u32_all_inputs', 'dec_array_all_inputs', 'dec_primitive_all_inputs', 'dec_option_symbol_all_inputs', 'dec_bitsequence_all_inputs'],
        assumptions=['CODEC', 'VSTD', 'TOOLS'],
    ),
    'C16': dict(
        title='MetaType equality is type identity, and identities are coherent',
        level='proof',
        technique='Verus: PartialEq/PartialOrd/Ord SpecImpl checked against the extracted bodies of the real MetaType; forwarding obligations on alias impls',
        level_text='On the real struct (rule R9: fn pointer field made opaque) eq is proved to be equality of the stored TypeId, cmp/partial_cmp the TypeId order, hash to feed exactly the TypeId, new::<T>() to store TypeId::of::<T::Identity>() and is_phantom() to be equality with PhantomData<()>\'s identity. For every library impl whose identity is not Self, type_info() is proved to return its target\'s definition (forwarding), for all type arguments; PhantomData<T>::type_info is checked not to mention T.',
        level_note='Assumed: TypeId Eq/Ord/Hash lawful and TypeId::of a function of the type (A4, A10). Coherence of user-written and derived impls is outside the repository code under contract.',
        verus=[('metatype', ['PartialEq for MetaType::eq', 'PartialOrd for MetaType::partial_cmp', 'Ord for MetaType::cmp', 'Hash for MetaType::hash', 'MetaType::*']),
               ('alias', ['TypeInfo for *', 'tmpl::identity::*'])],
        kani_quick=['metatype_new_identity'], kani_thorough=['metatype_new_identity'],
        assumptions=['A4', 'A10', 'VSTD', 'TOOLS'],
    ),
    'C17': dict(
        title='Builders are lossless and order preserving; PhantomData members are erased',
        level='proof',
        technique='Verus full functional postconditions on every public function of src/build.rs (audited by name against the unit), the src/ty constructors incl. TypeDefTuple::new (rule R20) and the accessors, verified twice (docs feature on / off)',
        level_text='Every builder step is proved to produce exactly the supplied component and leave all others unchanged (FieldBuilder, VariantBuilder, Variants, FieldsBuilder, TypeBuilder, Type::new, Field::new, Variant::new, TypeDef*::new); MetaForm push_field lists a field unless its type is PhantomData, PortableForm push_field always; docs()/docs_portable() keep docs exactly with the docs feature and are the identity without it, docs_always() always keeps them. Closure-taking builders are specified through the closure\'s own requires/ensures.',
        level_note='TypeDefTuple::new (`into_iter().filter(|ty| !ty.is_phantom()).collect()`; the prophetic Filter spec of vstd cannot be connected to Seq::filter) IS verified after rule R20 (an iterator pipeline ending in collect into a Vec is replaced by the loop std defines it by: next() until None, results pushed in order): the result is exactly the non-phantom members in order; the native enumeration of all member triples runs it on the real iterators (CBMC ran out of memory on a Kani harness for it). MetaType::new / is_phantom contracts are proved in unit metatype. Initial emptiness comes from the Default impls (verified). The derive\'s generated code is not in the repository and not covered. Assumed: to_vec contract.',
        verus=[('build', ['*']), ('alias', ['tmpl::no_literal::*'])],
        # bounded cross-checks, on the real std code, of rule R20 (c) (filter + collect) and of the to_vec / String::from contracts
        kani_quick=['std_filter_collect_is_the_loop'], kani_thorough=['std_filter_collect_is_the_loop', 'std_string_from_and_to_vec_small'],
        assumptions=['A4', 'A8', 'A12', 'VSTD', 'TOOLS'],
    ),
    'C18': dict(
        title='Paths are non-empty sequences of valid Rust identifiers',
        level='other',
        technique='Verus: postcondition `r == ident_ok(s@)` on the real is_rust_identifier for ALL strings, and the exact success / first-offending-position contract on Path::from_segments '
                  '(plus is_empty, ident, namespace), over assumed contracts of the std string / iterator functions they call; Kani (bounded) runs the same functions with the real std code; '
                  'Path::new / new_with_replace / Display bounded only',
        level_text='MIXED. Proved (Verus, unbounded): is_rust_identifier(s) is true exactly when s matches (r#)?[A-Za-z_][A-Za-z0-9_]* - for every string, any length, any characters (grammar '
                   'ident_ok written from the statement; non-ASCII strings shown to be non-identifiers by lemma_bad_char). Path::from_segments(segments): Ok exactly when there is at least one '
                   'segment and every segment is an identifier, the path then holds the segments in order; MissingSegments exactly for no segments; otherwise InvalidIdentifier carries the '
                   'position of the FIRST offending segment. is_empty, ident (last segment), namespace (all but the last). NOT proved, bounded only (Kani + native): Path::new and '
                   'new_with_replace (str::split, Chain, Once, the replacement lookup: no specifications, no place for an invariant), Display (core::fmt), and the std functions themselves.',
        level_note='Assumed (A11): contracts written for this project on str::strip_prefix (for a &str pattern), u8::is_ascii_lowercase / uppercase / digit, <[T]>::split_last, '
                   'Iterator::position and Iterator::last of slice::Iter (position through the contract of the predicate passed in; predicates with side effects or preconditions are out of scope), '
                   'plus vstd\'s own str::is_ascii, str::as_bytes, <[T]>::split_first, Iterator::all, Option::unwrap_or / map / cloned. Kani runs the same functions on the real std code as a cross-check of '
                   'exactly these assumptions: quick 8 ASCII bytes + one arbitrary char; thorough 12 bytes, from_segments 3 x 4 bytes, new_with_replace on small module paths. '
                   'Three template-directed rewrites (R8) in is_rust_identifier: the patterns `(&head, tail)` and `|&ch|` become variables plus a dereferencing `let` (Verus has no reference patterns).',
        explanation='Verus obligations on the real is_rust_identifier / Path functions for all inputs; bounded Kani/CBMC checks of the same functions on the real std code',
        verus=[('path', ['is_rust_identifier', 'Path<MetaForm>::from_segments', 'Path<T>::is_empty', 'Path<T>::ident', 'Path<T>::namespace', 'Path<T>::segments', 'Path<T>::voldemort', 'Path<T>::from_segments_unchecked', 'tmpl::lemma_byte_char', 'tmpl::lemma_bad_char'])],
        kani_quick=['ident_ascii_8', 'ident_unicode_char', 'std_u8_ascii_classes', 'std_strip_prefix_small', 'std_slice_iter_small'],
        kani_thorough=['ident_ascii_12', 'ident_unicode_char', 'std_u8_ascii_classes', 'std_strip_prefix_small', 'std_slice_iter_small', 'ident_contract_3', 'from_segments_3x4', 'path_new_with_replace_small'],
        assumptions=['A11', 'A5', 'VSTD', 'TOOLS'],
    ),
    'C06': dict(
        title='SCALE wire format of the registry is the published V14 layout, byte for byte',
        level='proof',
        technique='Verus contracts on the code generated by the codec derive (taken from rustc -Zunpretty=expanded of the working tree): each encode_to appends exactly the published layout, each decode is sound / canonical / complete for it; assumed model of the dependency primitives',
        level_text='For all 17 types the registry is made of, the derive-generated encode_to is proved to append exactly enc(self) - and the seven `encode()` overrides the derive emits for single-member structs (PortableRegistry::encode, the method users call, among them) to return exactly enc(self) -, where enc is the published V14 layout written compositionally from the statement (definition tags 0..7, primitive tags 0..14, array = u32 LE length then id, bit-sequence = store then order, field / variant / parameter / type / entry member order, compact ids, u8 index) - for ALL registries, strings and ids, no bound. The derive-generated decoders are proved sound, canonical and complete for the same layout (lemma_registry: the decoder\'s denc equals the encoder\'s enc), i.e. an independent decoder written from the layout agrees with the library.',
        level_note='Assumed: the model of parity-scale-codec\'s own Encode/Decode impls for u8, u32, Compact<u32>, String, Option, Vec, PhantomData, &T and of its Input/Output traits (module `scale` in contracts/codec.vrs) - dependency code, not verified. Rules R14 (compile-time `const _` assertion blocks dropped), R15 (::scale:: paths), R16 (immediately invoked `move` closures in enum decoders inlined). Kani cross-check of the real dependency on the leaves (complete harnesses) and native comparison with an independent encoder/decoder on enumerated registries run alongside and are listed as bounded.',
        verus=[('codec', ['crate::scale::Encode for *::encode_to', 'crate::scale::Encode for *::encode', 'crate::scale::Decode for *::decode', 'tmpl::lemma_*'])],
        # the complete Kani leaves execute the REAL dependency (Compact<u32>, u32, u8 encoders): they cross-check the assumed model on its scalars
        # ... and the complete decode leaves run its Compact<u32> / u32 / Option decoders and the derived decoders of the leaf types on EVERY input
        kani_quick=['enc_symbol_compact', 'enc_def_primitive', 'enc_def_array', 'dec_compact_u32_all_inputs', 'dec_symbol_all_inputs', 'dec_primitive_all_inputs'],
        kani_thorough=['enc_symbol_compact', 'enc_def_primitive', 'enc_def_sequence', 'enc_def_compact', 'enc_def_array', 'enc_def_tuple', 'enc_field_a', 'enc_def_bitsequence',
                       'dec_compact_u32_all_inputs', 'dec_symbol_all_inputs', 'dec_primitive_all_inputs', 'dec_option_symbol_all_inputs', 'dec_array_all_inputs', 'dec_bitsequence_all_inputs'],
        assumptions=['CODEC', 'VSTD', 'TOOLS'],
    ),
    'C15': dict(
        title='Produced metadata does not depend on the enabled crate features',
        level='other',
        technique='Verus: the SAME contract text (config-independent: strings by their characters, ids by table position, bytes by the layout function enc) is discharged on the '
                  'functions extracted under each feature configuration (no-std, no-std+decode, std, everything), with rustc expanding the macros per configuration; '
                  'plus a bounded cross-build comparison of the encoded bytes',
        level_text='MIXED. Proved per configuration K in {(none) = no_std, decode, std, std+serde+decode+bit-vec+schema} and for build also K+docs: every function on the path from type '
                   'definitions to bytes - all builders and constructors (unit build), Interner and Registry operations (interner, registry), the 14 into_portable conversions '
                   '(registry_impls), From<Registry> for PortableRegistry (portable) and the 17 derive-generated encode_to functions (codec) - satisfies the same contracts as in '
                   'the default configuration. Those contracts determine the output as a function that does not mention the configuration: builders return exactly what they were given '
                   '(docs only where the docs feature or docs_always says so - the single feature-dependent clause, under //@ if-feature docs), the portable image is determined by the '
                   'source definition and the table (strings by characters: the portable string type is String or &\'static str depending on std/decode and both satisfy the same '
                   'clauses; ids by first-registration order), and encode_to appends enc(value), where enc of String and of str is the same function of the characters. '
                   'NOT machine-checked: the final step from "same functional contracts in every configuration" to "byte-identical across builds" is an argument over the contract text, '
                   'since a relation between two builds of a crate is not expressible in one verification unit; the derive macro (scale-info-derive, its docs feature) is not under contract. '
                   'Bounded: one program registering 19 fixed types (derived and built-in) is built under 8 (thorough: 40) feature sets and the printed encodings are compared; with docs the '
                   'comparison is made after emptying every documentation list.',
        level_note='Assumed: CODEC (the dependency encodes String and str alike: compact byte length + UTF-8), A6 (String: From<&str> preserves the characters; T: From<T> is the identity), '
                   'and the assumptions of C01/C02/C06/C17 for the units reused here. Feature-dependent derives (Decode, Serialize, JsonSchema) do not touch the Encode path; the expansion is '
                   'nevertheless taken from rustc under each configuration.',
        verus=[('build', ['*']), ('interner', INTERNER_ITEMS), ('registry', REGISTRY_ITEMS), ('registry_impls', IMPL_ITEMS),
               ('portable', ['From<Registry> for PortableRegistry::from', 'Registry::types']), ('codec', ['crate::scale::Encode for *::encode_to', 'crate::scale::Encode for *::encode']),
               ('path', ['is_rust_identifier', 'Path<MetaForm>::from_segments', 'Path<T>::from_segments_unchecked', 'Path<T>::voldemort'])],
        verus_configs={u: [('-nostd', ()), ('-decode', ('decode',)), ('-std', ('std',)), ('-all', ('std', 'serde', 'decode', 'bit-vec', 'schema'))] +
                          ([('-nostd-docs', ('docs',)), ('-all-docs', ('std', 'serde', 'decode', 'bit-vec', 'schema', 'docs'))] if u == 'build' else [])
                       for u in ('build', 'interner', 'registry', 'registry_impls', 'portable', 'codec', 'path')},
        kani_quick=[], kani_thorough=[],
        assumptions=['A1', 'A2', 'A4', 'A5', 'A6', 'A7', 'A9', 'CODEC', 'PARTIAL', 'MODULAR', 'A12', 'VSTD', 'TOOLS'],
    ),
    'C08': dict(
        title='JSON form has the documented shape and round-trips',
        level='other',
        technique='Verus: postcondition "the serializer is fed exactly json(self)" on the 17 serialize functions the serde derive generates for this crate (shape half, all registries); '
                  'deserialisation half by bounded native round trips only',
        level_text='MIXED. Proved (Verus, for every PortableRegistry value and every serializer that follows the assumed serde contracts): each derive-generated `serialize` function of '
                   'UntrackedSymbol, PortableRegistry, PortableType, Type, Path, TypeParameter, TypeDef, TypeDefPrimitive and the eight definition structs, Variant and Field feeds the '
                   'serializer exactly the JSON value `json(self)`, and `json` is written here from the statement: keys types / id / type / path / params / def / docs / name / typeName / '
                   'index / fields / variants / len (and bit_store_type / bit_order_type), lower-case definition tags and primitive names, ids and paths transparent, empty path / params / '
                   'fields / variants / docs and absent names omitted. NOT proved, bounded only: deserialising that JSON yields an equal registry (the derive-generated Deserialize visitors '
                   'loop over map keys; they are not under contract) - checked natively on about 110 enumerated registries through serde_json (from_str(to_string(r)) == r, '
                   'from_value(to_value(r)) == r, agreement with the SCALE round trip), together with the concrete serde_json output against an independently built documented shape.',
        level_note='Assumed: the model of serde / serde_json (assumption SERDE). The proof is about the data-model calls the generated code makes, not about serde_json\'s text writer. '
                   'Path::is_empty (the skip predicate of `path`) is verified in the same unit.',
        verus=[('serde', ['_serde::Serialize for *::serialize', 'Path<T>::is_empty'])],
        kani_quick=[], kani_thorough=[],
        assumptions=['SERDE', 'VSTD', 'TOOLS'],
    ),
    'C07': dict(
        title='SCALE round trip of a registry is lossless, exact and injective',
        level='proof',
        technique='Verus: round-trip, canonicity and injectivity theorems over the verified contracts of the derive-generated encode_to / decode functions',
        level_text='theorem_roundtrip: an input that starts with the bytes the library encoder writes for a registry decodes to exactly that registry and leaves exactly the rest (for every PortableRegistry value, well-formed or not). Encoding is deterministic because encode_to is proved to append the value of the spec function enc. theorem_injective: two registries with the same encoding are equal (both are what the verified decoder returns on it). The theorems call the real extracted decoder, whose contract (sound, canonical, complete) is proved for all 17 generated decode functions.',
        level_note='Assumed: the model of the dependency primitives (see C06) - in particular that the primitive decoders are complete and canonical (true of parity-scale-codec 3: Compact rejects non-minimal encodings, String validates UTF-8). Injectivity is stated for encodings consumed by an Input; any byte string can be one.',
        verus=[('codec', ['crate::scale::Encode for *::encode_to', 'crate::scale::Encode for *::encode', 'crate::scale::Decode for *::decode', 'tmpl::lemma_*', 'tmpl::theorem_*'])],
        # the complete decode leaves run the real dependency decoders the theorems assume to be sound / canonical / complete, on every input
        kani_quick=['dec_compact_u32_all_inputs', 'dec_option_symbol_all_inputs'], kani_thorough=['dec_compact_u32_all_inputs', 'dec_option_symbol_all_inputs', 'dec_symbol_all_inputs', 'dec_array_all_inputs', 'dec_bitsequence_all_inputs'],
        assumptions=['CODEC', 'VSTD', 'TOOLS'],
    ),
}
