"""Which obligations decide which property.

For every claimed property: the Verus units (and feature configurations) to extract and verify,
the patterns selecting the items (real functions under contract, lemmas) whose obligations belong
to the property, and the Kani harnesses of each tier.  Items of a unit that match no pattern of a
property are still verified in the same run but do not decide that property.
"""

# unit -> list of (suffix, features)
UNIT_CONFIGS = {
    'interner': [('', ('std',))],
    'registry': [('', ('std',))],
    'portable': [('', ('std',))],
    'retain': [('', ('std',))],
    'build': [('-docs', ('std', 'docs')), ('-nodocs', ('std',))],
    'metatype': [('', ('std',))],
    'alias': [('', ('std',))],
}

# functions for which the end of the body is legitimately unreachable or where a canary at the end
# makes no sense: canary goes to the start of the body instead
CANARY_AT_START = set()

STD_ASSUMPTIONS = {
    'A1': 'ASSUMED contract on std BTreeMap entry API (entry / VacantEntry::insert / OccupiedEntry::get) with two '
          'resolution axioms (an entry dropped unused leaves the map unchanged) - written for this project, vstd has none',
    'A2': 'ASSUMED: BTreeMap iterates in ascending key order',
    'A3': 'ASSUMED contract on core::mem::replace (returns *old(dest), stores src)',
    'A4': 'ASSUMED: TypeId is opaque with lawful Eq/Ord; TypeId::of::<A>() == TypeId::of::<B>() iff A and B are the same type',
    'A5': 'ASSUMED: lawful Ord (vstd key_obeys_cmp_spec) and Clone (clone returns an equal value) for the key types '
          '(derived impls of TypeId, UntrackedSymbol, Type<PortableForm>) - explicit preconditions of the Interner operations',
    'A6': 'ASSUMED: String: From<&\'static str> preserves the characters (uninterpreted injective spec function)',
    'A7': 'machine integers: Verus checks overflow; `as u32` casts of lengths truncate in the real code beyond 2^32 entries, '
          'so every id clause is stated relative to capacity cap_ok(len) := len <= 2^32',
    'VSTD': 'vstd specifications of Vec, slice, Option, BTreeMap::{new,insert,get,contains_key}, Seq/Map/Set libraries (trusted, shipped with Verus)',
    'TOOLS': 'Verus 0.2026.09.13 + Z3; the extractor (syntactic, rules R1-R4, R11 and logged rewrite directives)',
}

PROPS = {
    'C12': dict(
        title='Runtime builder and interner behave as an append-only duplicate-free table',
        level='proof',
        technique='Verus contracts (requires/ensures + representation invariant) on the extracted real functions, SMT-discharged',
        level_text='Every Interner operation is proved, for all element types, values and prior states satisfying the representation invariant, to behave exactly like the duplicate-free list that is its abstract view; because each operation requires only the invariant and re-establishes it with a functional description of the new view, the statement holds for every finite operation sequence by induction.',
        level_note='Trusted: assumed contract for the std BTreeMap entry API, lawful Ord/Clone of the element type, vstd, Verus/Z3, the syntactic extractor. Ids are guaranteed up to 2^32 entries (u32 casts).',
        verus=[('interner', ['Interner<T>::*', "Symbol<'_, T>::into_untracked", 'From<u32> for UntrackedSymbol<T>::from',
                             'tmpl::lemma_history_*', 'tmpl::witness_*']),
               ],
        kani_quick=[], kani_thorough=[],
        assumptions=['A1', 'A5', 'A7', 'VSTD', 'TOOLS'],
    ),
}
