"""./check <property> [--tier quick|thorough]: run every obligation of one property and decide."""
import fnmatch
import hashlib
import json
import os
import sys
import time
from concurrent.futures import ThreadPoolExecutor

from . import props as P
from .verus import verify_unit, default_cfg, VERIF, REPO

EVID = os.path.join(VERIF, 'evidence')
REPLAY = os.path.join(VERIF, 'replay')
KNOWN = os.path.join(VERIF, 'known_findings.txt')
BASELINE = os.path.join(VERIF, 'baseline', 'obligations.json')


def matches(item, patterns):
    return any(fnmatch.fnmatchcase(item, p) for p in patterns)


def load_known():
    known, fixed = [], []
    if os.path.exists(KNOWN):
        for l in open(KNOWN):
            l = l.strip()
            if l.startswith('known:'):
                d = dict(kv.split('=', 1) for kv in l[6:].split('\t') if '=' in kv) if '\t' in l else None
                if d is None:
                    parts = l[6:].strip().split(' ', 2)
                    d = dict(kv.split('=', 1) for kv in parts[:2])
                    d['what'] = parts[2] if len(parts) > 2 else ''
                known.append(d)
            elif l.startswith('fixed:'):
                fixed.append(l)
    return known, fixed


def obligation_id(unit, err):
    kind = err['message'].split(':')[0].strip()
    h = hashlib.sha1(err['clause'].encode()).hexdigest()[:8]
    return '%s::%s::%s#%s' % (unit, err['item'] or '?', kind.replace(' ', '_'), h)


def run_verus_leg(pid, conf, tier, seed, outdir):
    """returns list of dicts per (unit, config)"""
    jobs = []
    for unit, patterns in conf.get('verus', []):
        for suffix, feats in conf.get('verus_configs', {}).get(unit, P.UNIT_CONFIGS[unit]):
            jobs.append((unit, suffix, feats, patterns))

    def one(job):
        unit, suffix, feats, patterns = job
        cfg = default_cfg(feats)
        kw = {}
        if seed:
            kw['seed'] = seed
        main = verify_unit(unit, cfg, suffix, outdir=outdir, **kw)
        canary = None
        if main.status != 'undecided' or main.errors:
            canary = verify_unit(unit, cfg, suffix, canary=True, canary_at_start=P.CANARY_AT_START, outdir=outdir,
                                 multiple_errors=2)
        extra = []
        if tier == 'thorough' and main.status == 'ok':
            # perturbation runs: expose brittle proofs before they turn into false alarms
            for tag, k in (('rlimit-half', dict(rlimit=5)), ('seed-alt', dict(seed=(seed or 0) + 7919))):
                r = verify_unit(unit, cfg, suffix + '-' + tag, outdir=outdir, **k)
                extra.append((tag, r.status, r.reason, r.smt_ms))
        return dict(unit=unit, suffix=suffix, feats=feats, patterns=patterns, main=main, canary=canary, perturb=extra)

    with ThreadPoolExecutor(max_workers=8) as ex:
        return list(ex.map(one, jobs))


def decide(pid, tier, seed):
    t0 = time.time()
    conf = P.PROPS[pid]
    outdir = os.path.join(VERIF, 'build', '%s-%s' % (pid, tier))
    os.makedirs(outdir, exist_ok=True)
    os.makedirs(EVID, exist_ok=True)
    known, fixed = load_known()

    undecided = []      # reasons
    violations = []     # dicts
    obligations = []    # dicts name, backend, status, unit
    samples = []
    functions_under_contract = []
    rewrites, dropped = [], {}
    assumption_scan = {}
    solver_ms = 0
    cmds = []
    externals = []
    bounded = []

    legs = run_verus_leg(pid, conf, tier, seed, outdir)
    wit = []
    for leg in legs:
        main, canary, patterns = leg['main'], leg['canary'], leg['patterns']
        uname = leg['unit'] + leg['suffix']
        cmds.append(main.cmd)
        solver_ms += main.smt_ms
        if main.status == 'undecided' and not main.errors:
            undecided.append('%s: %s' % (uname, main.reason))
            continue
        if main.status == 'undecided':
            undecided.append('%s: %s' % (uname, main.reason))
        # items of this unit that belong to the property
        log = main.log
        mine = []
        for it in log.items:
            if it['kind'] != 'fn':
                continue
            if matches(it['name'], patterns):
                if it.get('external'):
                    externals.append('%s: %s (%s:%s) left unverified in this unit, contract ASSUMED here' % (uname, it['name'], it['file'], it['line']))
                elif it.get('declared_only'):
                    pass
                else:
                    mine.append(it)
        tmpl_items = sorted(set(o[1] for o in main_origin_items(main) if o[1] and o[1].startswith('tmpl::') and matches(o[1], patterns)))
        failed_items = {}
        restructured_items = {}
        for e in main.errors:
            if e['class'] == 'restructured':
                for i in ([e['item']] + e['items']):
                    if i and matches(i, patterns) and i not in restructured_items:
                        restructured_items[i] = e
                        undecided.append('%s: `%s` was restructured (new %s relative to the committed baseline) and its proof no longer '
                                         'goes through - needs contract, not a verdict [%s: %s]'
                                         % (uname, i, ', '.join(e['restructured']), e['message'], e['clause'][:120]))
                continue
            if e['class'] != 'semantic':
                continue
            its = [i for i in ([e['item']] + e['items']) if i]
            hit = [i for i in its if matches(i, patterns)]
            if not hit:
                continue
            e = dict(e, item=hit[0])
            failed_items.setdefault(hit[0], []).append(e)
        for it in mine:
            name = it['name']
            ob = dict(name='%s::%s' % (uname, name), backend='Verus/Z3', file=it['file'], line=it['line'],
                      ghost_lines=it['ghost_lines'], source_sha=it['sha'])
            ob['status'] = 'failed' if name in failed_items else ('discharged' if main.status != 'undecided' and name not in restructured_items else 'undecided')
            obligations.append(ob)
            functions_under_contract.append('%s:%s %s' % (it['file'], it['line'], name))
        for t in tmpl_items:
            ob = dict(name='%s::%s' % (uname, t), backend='Verus/Z3', file='contracts', line=None)
            ob['status'] = 'failed' if t in failed_items else ('discharged' if main.status != 'undecided' else 'undecided')
            obligations.append(ob)
        for item, errs in failed_items.items():
            for e in errs:
                violations.append(dict(unit=uname, item=item, obligation=obligation_id(uname, e), message=e['message'],
                                       clause=e['clause'], rendered=e['rendered'], src_file=e['src_file'], src_line=e['src_line'],
                                       path=main.path, cmd=main.cmd))
        # vacuity: every verified body must fail its canary
        if canary is not None and main.status == 'ok':
            hit = set()
            for e in canary.errors:
                if 'CANARY' in e['clause'] or 'assert(false)' in e['clause']:
                    hit.add(e['item'])
            if canary.status == 'undecided' and not canary.errors:
                undecided.append('%s: canary run undecided: %s' % (uname, canary.reason))
            else:
                for t in getattr(canary, 'canary_tmpl_items', []):
                    if t and matches(t, patterns) and t not in hit:
                        undecided.append('%s: VACUITY: template function %s verifies even with assert(false) at its end' % (uname, t))
                for it in mine:
                    if it['name'] not in hit:
                        undecided.append('%s: VACUITY: %s verifies even with assert(false) at its end (contradictory precondition or assumption leak)' % (uname, it['name']))
        for w in log.rewrites:
            rewrites.append(w)
        for d in log.dropped:
            dropped[d['what']] = dropped.get(d['what'], 0) + 1
        for k, v in main.assumption_scan.items():
            assumption_scan[k] = assumption_scan.get(k, 0) + v
        for tag, st, reason, ms in leg['perturb']:
            if st != 'ok':
                bounded.append('perturbation %s on %s: %s %s (brittleness warning, not a violation)' % (tag, uname, st, reason))

    # ---- Kani leg
    kani_res = []
    harnesses = conf.get('kani_' + tier, conf.get('kani_quick', []))
    if harnesses and not os.environ.get('VERIF_DEV_SKIP_KANI'):
        from .kani import run_kani_leg
        kani_res = run_kani_leg(pid, harnesses, tier, outdir)
        for k in kani_res:
            cmds.append(k['cmd'])
            solver_ms += int(k.get('solver_s', 0) * 1000)
            ob = dict(name='kani::' + k['harness'], backend='Kani/CBMC', status=k['status'], complete=k['complete'],
                      bound=k['bound'], checks=k.get('checks'), functions=k.get('functions'))
            if k['complete']:
                obligations.append(ob)
            else:
                bounded.append(dict(ob))
            for f in k.get('functions', []):
                functions_under_contract.append(f + ' [Kani]')
            if k['status'] == 'failed':
                violations.append(dict(unit='kani', item=k['harness'], obligation='kani::' + k['harness'] + '::' + k.get('failed_check', 'assertion'),
                                       message=k.get('failed_desc', 'Kani verification failed'), clause=k.get('failed_check', ''),
                                       rendered=k.get('output_tail', ''), src_file=None, src_line=None, path=k.get('replay_test'),
                                       cmd=k['cmd'], witness=k.get('witness'), witness_confirmed=k.get('witness_confirmed')))
            elif k['status'] == 'undecided':
                undecided.append('kani %s: %s' % (k['harness'], k.get('reason', '')))

    # ---- native bounded leg (executable contracts on the real code, exhaustive small scope)
    from .witness import run_witness
    wit = []
    wfeats = [('json',)] if pid in ('C08', 'C14') else [()] + ([('docs',)] if pid == 'C17' else [])
    for wf_ in wfeats:
        w = run_witness(pid, tier, outdir, wf_)
        if w:
            wit.append(w)
    if pid == 'C15':
        from .witness import run_witness15
        wit.append(run_witness15(tier, outdir))
    deductive_undecided = bool(undecided)
    for w in wit:
        cmds.append(w['cmd'])
        bounded.append(dict(name='native::%s%s' % (pid, ('+' + '+'.join(w['features'])) if w['features'] else ''), backend='native exhaustive enumeration (bounded, not proof)',
                            status=w['status'], bound=w['scope'] + ' [max=%d]' % w['max'], cases=w.get('cases'), nontrivial=w.get('nontrivial')))
        if w['status'] == 'failed':
            violations.append(dict(unit='native', item='executable contract of ' + pid, obligation='native::%s::executable-contract' % pid,
                                   message='the executable contract of the property is violated by a concrete execution of the real code',
                                   clause=w['witness'][:300], rendered=w['witness'], src_file=None, src_line=None, path=None, cmd=w['cmd'],
                                   witness='The enumerated input below violates the property when run against the real crate (re-run: `%s`):\n\n```\n%s\n```' % (w['cmd'], w['witness'])))
        elif w['status'] == 'undecided':
            undecided.append('native bounded leg: ' + w.get('reason', '')[:300])
    # a concrete counterexample decides even when the deductive leg lost its anchors / met an unsupported construct
    if any(w['status'] == 'failed' for w in wit):
        undecided = []

    # ---- known findings
    reported, kf_lines = [], []
    for v in violations:
        kf = None
        for k in known:
            if k.get('property') == pid and k.get('obligation') and k['obligation'] in v['obligation']:
                kf = k
        if kf:
            kf_lines.append('KNOWN-FINDING: property=%s %s' % (pid, kf.get('what', v['obligation'])))
        else:
            reported.append(v)

    # ---- baseline cross-check: an obligation that used to be discharged and is gone is not success
    if os.path.exists(BASELINE):
        base = json.load(open(BASELINE)).get(pid, {}).get(tier)
        if base is not None:
            now = set(o['name'] for o in obligations)
            missing = [b for b in base if b not in now]
            if os.environ.get('VERIF_DEV_SKIP_KANI'):
                missing = [b for b in missing if not b.startswith('kani::')]
            if missing and not undecided:
                undecided.append('obligations of the committed baseline are missing from this run: %s' % ', '.join(missing[:5]))

    # ---- replay files + output
    os.makedirs(REPLAY, exist_ok=True)
    lines = []
    seen = set()
    for v in reported:
        key = v['obligation']
        if key in seen:
            continue
        seen.add(key)
        rp = os.path.join(REPLAY, '%s-%s.md' % (pid, hashlib.sha1(key.encode()).hexdigest()[:10]))
        witness = v.get('witness')
        if witness is None:
            for w in wit:
                if w['status'] == 'failed':
                    witness = 'The enumerated input below violates the property when run against the real crate (re-run: `%s`):\n\n```\n%s\n```' % (w['cmd'], w['witness'])
        with open(rp, 'w') as f:
            f.write('# VIOLATION property=%s\n\n' % pid)
            f.write('failed obligation: `%s`\n\n' % v['obligation'])
            f.write('verifier message: %s\n\nclause: `%s`\n\n' % (v['message'], v['clause']))
            if v.get('src_file'):
                f.write('real code: /repo/%s line %s (function `%s`)\n\n' % (v['src_file'], v['src_line'], v['item']))
            f.write('re-run: `%s`\n\n' % v['cmd'])
            if witness:
                f.write('## failing input replayed on the real code\n\n%s\n\n' % witness)
            else:
                f.write('## no-failing-input-found\n\nThe verifier gives no model for this obligation and the witness search found no concrete input; '
                        'the obligation was discharged on the unchanged tree and is refuted now.\n\n')
            f.write('## verifier output\n\n```\n%s\n```\n' % v['rendered'])
            if v.get('path') and os.path.exists(str(v['path'])):
                f.write('\nverified text: %s\n' % v['path'])
        lines.append('VIOLATION property=%s replay=%s%s' % (pid, rp, '' if witness else ' no-failing-input-found'))

    n_ob = len(obligations)
    n_dis = len([o for o in obligations if o['status'] in ('discharged', 'ok')])
    for o in obligations[:40]:
        samples.append({k: o[k] for k in ('name', 'backend', 'status') if k in o})
    level = conf['level']
    ev = dict(
        property_id=pid, tier=tier, seed=int(seed or 0), level=level,
        coverage=dict(
            obligations=n_ob, discharged=n_dis,
            checker_cmd=' ; '.join(cmds) if cmds else 'n/a',
            trusted_base=[P.STD_ASSUMPTIONS[a] for a in conf.get('assumptions', [])] + externals,
            samples=samples,
            explanation=conf.get('explanation', '') or ('%d obligations (functions of /repo under contract + lemmas), each discharged for all inputs by the named back end' % n_ob),
            functions_under_contract=sorted(set(functions_under_contract)),
            obligation_names=[o['name'] for o in obligations],
            backends=sorted(set(o['backend'] for o in obligations)),
            solver_s=round(solver_ms / 1000.0, 3),
            bounded_checks=bounded,
            bounded_note='bounded checks are listed separately and are NOT counted in obligations/discharged',
            extraction=dict(
                rewrites=[dict(rule=w['rule'], where='%s:%s' % (w['file'], w['line']), before=w['before'][:200], after=w['after'][:200]) for w in rewrites],
                dropped_counts=dropped, note='function text is cut from /repo working tree on every run; ghost text is inserted, never replaces code'),
            assumption_scan=assumption_scan,
            undecided=undecided,
            exhaustive=False,
            evaluations=sum((w.get('cases') or 0) for w in wit) or None,
            distinct_nontrivial=sum((w.get('nontrivial') or 0) for w in wit) or None,
            rule='native bounded leg: cases = inputs / histories enumerated exhaustively within the stated scope; nontrivial = those exercising the interesting side of the property (duplicates, partial filters, invalid segments, aliases ...) as counted by the enumerator',
        ),
        assumptions=[P.STD_ASSUMPTIONS[a] for a in conf.get('assumptions', [])] + conf.get('extra_assumptions', []) + externals,
        wall_s=round(time.time() - t0, 2),
        violations=len(lines),
    )
    ev['coverage'] = {k: v for k, v in ev['coverage'].items() if v is not None}
    tmp = os.path.join(EVID, pid + '.json.tmp')
    with open(tmp, 'w') as f:
        json.dump(ev, f, indent=1)
    os.replace(tmp, os.path.join(EVID, pid + '.json'))

    for l in kf_lines:
        print(l)
    if lines:
        for l in lines:
            print(l)
        print('%s: %d/%d obligations discharged, %d violation(s)' % (pid, n_dis, n_ob, len(lines)))
        return 1
    if undecided:
        for u in undecided:
            print('UNDECIDED: ' + u)
        print('%s: undecided (exit 2) - not a violation' % pid)
        return 2
    print('%s: OK %d/%d obligations discharged (%s), %d bounded stand-ins, %.1fs' % (
        pid, n_dis, n_ob, ', '.join(sorted(set(o['backend'] for o in obligations))), len([b for b in bounded if isinstance(b, dict)]), time.time() - t0))
    return 0


def main_origin_items(res):
    # (kind, item) for all output lines -- used to find the template lemmas of a unit
    out = []
    # the extractor is not kept on the result; origin is reachable through log? -> stored by run_verus
    for o in getattr(res, 'origin', []) or []:
        out.append((o[0], o[1]))
    return out


def main(argv):
    if len(argv) < 2:
        print('usage: check <Cxx> [--tier quick|thorough]')
        return 2
    pid = argv[1]
    tier = os.environ.get('VERIF_TIER', 'quick')
    if '--tier' in argv:
        tier = argv[argv.index('--tier') + 1]
    seed = int(os.environ.get('VERIF_SEED', '0') or 0)
    if pid not in P.PROPS:
        print('property %s is not claimed (see MANIFEST.not_applicable)' % pid)
        return 2
    return decide(pid, tier, seed)
