NOTES = ('Technique family: contract-based deductive verification of the real code. Exit codes of ./check: 0 all obligations of the property '
         'discharged, 1 violation (VIOLATION line), 2 undecided (lost anchor / unsupported construct / solver limit) - never an alarm.')

NOT_APPLICABLE = {
    'C03': 'subject is the output of two proc-macros (scale-info-derive, parity-scale-codec-derive) over all programs; macro bodies manipulate syn/quote token trees that neither Verus nor Kani can interpret; decided per generated program, i.e. by program generation - another family',
    'C04': 'quantifies over type expressions and over the behaviour of parity-scale-codec Encode impls (dependency code not under contract); a contract on type_info::<Option<T>>() would restate the impl, relating it to bytes needs a SCALE model of the dependency (proving a model)',
    'C09': 'proc-macro over all programs x feature configurations (as C03); the one pure function (clean_type_string) is a private String pipeline covering a sliver of the statement',
    'C13': 'decided by rustc trait solver per generated program (programs that must compile) - no contract can express it',
    'C19': 'schemars-generated schema x serde output x a JSON Schema validator - none of it is code of this repository that a verifier here can interpret',
    'C20': 'a statement about programs that must NOT type-check; decided by rustc per program',
}
