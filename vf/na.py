NOTES = ('Technique family: contract-based deductive verification of the real code. Exit codes of ./check: 0 all obligations of the property '
         'discharged, 1 violation (VIOLATION line), 2 undecided (lost anchor / unsupported construct / solver limit) - never an alarm.')

NOT_APPLICABLE = {
    'C03': 'subject is the output of two proc-macros (scale-info-derive, parity-scale-codec-derive) over all programs; macro bodies manipulate syn/quote token trees that neither Verus nor Kani can interpret; decided per generated program, i.e. by program generation - another family',
    'C04': 'two halves, neither within reach: (a) the statement is about the bytes parity-scale-codec writes for std values (Option, Result, Vec, maps, ranges, NonZero, Duration ...) - dependency code that is not '
           'under contract here, so the byte side could only be an assumed table; (b) the code side, "type_info() of each built-in impl returns the documented shape", was tried on the rustc-expanded '
           'src/impls.rs: the bodies drive the builders with un-annotated closure literals (`.variant("Some", |v| v.index(1).fields(..))`), to which Verus attaches no postcondition, and the only rewrite that '
           'would help (inlining builder and closure bodies) turns the code into a model. What IS proved about these impls is their identity structure (C05 / C16: alias forwarding, one identity per '
           'impl), the builder / constructor functions they call (C17, incl. TypeDefTuple::new and the `From<TypeDefX> for Type` conversions) and, structurally, that src/impls.rs builds no definition '
           'with a struct literal, i.e. only through those functions (obligations no_literal::impls, C17).',
    'C09': 'proc-macro over all programs x feature configurations (as C03); the one pure function (clean_type_string) is a private String pipeline covering a sliver of the statement',
    'C13': 'decided by rustc trait solver per generated program (programs that must compile) - no contract can express it',
    'C19': 'schemars-derive output (JsonSchema impls building schema objects through the schemars API) x serde output x the semantics of JSON Schema validation: a contract would need a specification of '
           'JSON Schema validity and of the schemars API, neither exists for the verifiers here; the serialising side alone is covered by C08',
    'C20': 'a statement about programs that must NOT type-check; decided by rustc per program',
}
