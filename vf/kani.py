"""Kani leg: harness modules and cfg(kani) contract attributes are ADDED to a scratch copy of /repo's
working tree (nothing in the real code is changed), then `cargo kani` runs the selected harnesses.

A harness marked complete=True is loop-free over its full input domain (a proof); everything else is
a bounded stand-in and is reported separately, never counted as proved."""
import os
import re
import shutil
import signal
import subprocess
import tempfile
import time

VERIF = os.path.dirname(os.path.dirname(os.path.abspath(__file__)))
REPO = os.environ.get('VERIF_REPO', '/repo')

# harness -> (complete?, bound text, functions of /repo exercised, timeout seconds)
# harness -> (complete?, bound text, functions of /repo exercised, timeout seconds, memory limit GB)
HARNESSES = {
    # C18
    'ident_ascii_8': (False, 'all ASCII strings of length <= 8', ['src/utils.rs is_rust_identifier'], 600, 14),
    'ident_ascii_12': (False, 'all ASCII strings of length <= 12', ['src/utils.rs is_rust_identifier'], 1800, 14),
    'ident_unicode_char': (False, '<=2 ASCII bytes + one arbitrary char + <=1 ASCII byte', ['src/utils.rs is_rust_identifier'], 900, 14),
    'ident_contract_3': (False, 'proof_for_contract(is_rust_identifier): all ASCII strings of length <= 3', ['src/utils.rs is_rust_identifier'], 2400, 26),
    'from_segments_3x4': (False, '<= 3 segments x <= 4 ASCII bytes, is_rust_identifier replaced by its contract (stub_verified)',
                          ['src/ty/path.rs Path::from_segments', 'Path::ident', 'Path::namespace', 'Path::is_empty'], 3600, 20),
    'path_new_with_replace_small': (False, 'ident/key/value <= 2 ASCII bytes, one-entry table, module "m"', ['src/ty/path.rs Path::new_with_replace'], 3600, 14),
    # C06
    'enc_symbol_compact': (True, 'none (all u32)', ['derived Encode of UntrackedSymbol (#[codec(compact)] id)'], 600, 14),
    'enc_def_sequence': (True, 'none (all u32)', ['derived Encode of TypeDef / TypeDefSequence'], 900, 14),
    'enc_def_array': (True, 'none (all u32 x u32)', ['derived Encode of TypeDef / TypeDefArray'], 900, 14),
    'enc_def_primitive': (True, 'none (all 15 primitives)', ['derived Encode of TypeDef / TypeDefPrimitive'], 900, 14),
    'enc_def_compact': (True, 'none (all u32)', ['derived Encode of TypeDef / TypeDefCompact'], 900, 14),
    'enc_def_bitsequence': (True, 'none (all u32 x u32)', ['derived Encode of TypeDef / TypeDefBitSequence'], 2400, 14),
    'enc_def_tuple': (False, 'fixed shape (2 members), ids symbolic', ['derived Encode of TypeDef / TypeDefTuple'], 1200, 14),
    'enc_field_a': (False, 'fixed shape (name, no type name, no docs), id symbolic', ['derived Encode of Field'], 1200, 14),
    # C06 / C07 / C14 decode side: the dependency's scalar decoders (assumption CODEC) and the derived Decode of the leaf types, every input
    'dec_compact_u32_all_inputs': (True, 'none (every input of <= 6 bytes)', ['parity-scale-codec Compact<u32>::decode (assumed contract CODEC: sound, canonical, complete)'], 1200, 14),
    'dec_symbol_all_inputs': (True, 'none (every input of <= 6 bytes)', ['derived Decode of UntrackedSymbol (#[codec(compact)] id)'], 1200, 14),
    'dec_primitive_all_inputs': (True, 'none (every input of <= 2 bytes)', ['derived Decode of TypeDefPrimitive'], 900, 14),
    'dec_option_symbol_all_inputs': (True, 'none (every input of <= 7 bytes)', ['parity-scale-codec Option<T>::decode (assumed contract CODEC) over the derived Decode of UntrackedSymbol'], 1200, 14),
    'dec_bitsequence_all_inputs': (True, 'none (every input of <= 11 bytes)', ['derived Decode of TypeDefBitSequence (store id, then order id)'], 2400, 14),
    'dec_array_all_inputs': (True, 'none (every input of <= 10 bytes)', ['derived Decode of TypeDefArray (u32 LE, compact id)'], 1800, 14),
    # cross-checks of functions that used to be external in the Verus units (now verified in the loop form of rule R20)
    'builder_new_is_empty': (True, 'none (no inputs)', ['src/portable.rs PortableRegistryBuilder::new'], 600, 14),
    'map_into_portable_in_order': (False, '<= 3 elements', ['src/registry.rs Registry::map_into_portable'], 1200, 14),
    # cross-checks of contracts ASSUMED on std functions in the Verus units
    'std_u8_ascii_classes': (True, 'none (all u8)', ['core u8::is_ascii_lowercase / is_ascii_uppercase / is_ascii_digit (assumed contract A11)'], 600, 14),
    'std_strip_prefix_small': (False, 'ASCII strings of length <= 6, pattern "r#"', ['core str::strip_prefix (assumed contract A11)'], 1200, 14),
    'std_slice_iter_small': (False, 'slices of <= 5 bytes', ['core slice::Iter position / last, <[T]>::split_last (assumed contracts A11)'], 1200, 14),
    'std_map_collect_is_the_loop': (False, '<= 3 elements, closure mutating captured state', ['core Iterator::map + Vec: FromIterator (assumption A12 / rule R20 a)'], 1200, 14),
    'std_enumerate_collect_is_the_loop': (False, '<= 3 elements', ['core Enumerate + Map + Vec: FromIterator (assumption A12 / rule R20 b)'], 1200, 14),
    'std_filter_collect_is_the_loop': (False, '<= 3 elements', ['core Filter + Vec: FromIterator (assumption A12 / rule R20 c)'], 1200, 14),
    'std_mem_replace_u32': (True, 'none (all pairs of u32)', ['core::mem::replace (assumed contract A3)'], 600, 14),
    'std_string_from_and_to_vec_small': (False, '<= 4 ASCII bytes / <= 4 elements', ['String: From<&str> (assumption A6), <[T]>::to_vec (assumption A8)'], 1200, 14),
    'metatype_new_identity': (True, 'none (fixed pool of types, no symbolic input)', ['src/meta_type.rs MetaType::new / type_id / is_phantom'], 600, 14),
}

CONTRACT_ATTRS = [
    # (file, anchor line regex, attribute line added in front)
    ('src/utils.rs', r'^pub fn is_rust_identifier\(',
     '#[cfg_attr(kani, kani::ensures(|r: &bool| *r == crate::verif_kani::spec::spec_ident(s.as_bytes())))]'),
]


class KaniSetupError(Exception):
    pass


def prepare(scratch):
    subprocess.run(['rsync', '-a', '--exclude', 'target', '--exclude', '.git', REPO + '/', scratch + '/'], check=True)
    hd = os.path.join(scratch, 'src', 'verif_kani')
    os.makedirs(hd, exist_ok=True)
    for f in os.listdir(os.path.join(VERIF, 'kani', 'harness')):
        if f.endswith('.rs'):
            shutil.copy(os.path.join(VERIF, 'kani', 'harness', f), os.path.join(hd, f))
    with open(os.path.join(scratch, 'src', 'lib.rs'), 'a') as f:
        f.write('\n#[cfg(kani)]\nmod verif_kani;\n')
    for rel, rx, attr in CONTRACT_ATTRS:
        p = os.path.join(scratch, rel)
        lines = open(p).read().split('\n')
        hits = [i for i, l in enumerate(lines) if re.search(rx, l)]
        if len(hits) != 1:
            raise KaniSetupError('contract anchor %s in %s found %d times' % (rx, rel, len(hits)))
        lines.insert(hits[0], attr)
        open(p, 'w').write('\n'.join(lines))
    # the real code must be untouched: diff may only ADD lines
    d = subprocess.run(['diff', '-r', '-x', 'target', '-x', '.git', '-x', 'verif_kani', REPO + '/src', scratch + '/src'],
                       stdout=subprocess.PIPE, text=True).stdout
    for l in d.split('\n'):
        if l.startswith('<'):
            raise KaniSetupError('injection changed an existing line: ' + l)


def _limit(gb=14):
    import resource
    lim = gb * 1024 ** 3
    resource.setrlimit(resource.RLIMIT_AS, (lim, lim))
    os.setsid()


def run_one(scratch, harness, timeout, mem_gb=14):
    cmd = ['cargo', 'kani', '-Z', 'function-contracts', '-Z', 'stubbing', '--harness', harness]
    env = dict(os.environ, CARGO_NET_OFFLINE='true')
    t0 = time.time()
    p = subprocess.Popen(cmd, cwd=scratch, env=env, stdout=subprocess.PIPE, stderr=subprocess.STDOUT, text=True,
                         preexec_fn=lambda: _limit(mem_gb))
    try:
        out, _ = p.communicate(timeout=timeout)
        timed_out = False
    except subprocess.TimeoutExpired:
        try:
            os.killpg(p.pid, signal.SIGKILL)
        except ProcessLookupError:
            pass
        out, _ = p.communicate()
        timed_out = True
    return out, timed_out, time.time() - t0, ' '.join(cmd)


def parse(out):
    res = dict(status='undecided', checks=None, failed=None, reason='')
    m = re.search(r'\*\* (\d+) of (\d+) failed', out)
    if m:
        res['failed'], res['checks'] = int(m.group(1)), int(m.group(2))
    mt = re.search(r'Verification Time: ([0-9.]+)s', out)
    res['solver_s'] = float(mt.group(1)) if mt else 0.0
    cov = re.search(r'\*\* (\d+) of (\d+) cover properties satisfied', out)
    if cov:
        res['covers'] = (int(cov.group(1)), int(cov.group(2)))
    if 'VERIFICATION:- SUCCESSFUL' in out:
        res['status'] = 'ok'
        if cov and int(cov.group(1)) < int(cov.group(2)):
            res['status'] = 'undecided'
            res['reason'] = 'VACUITY: only %s of %s cover properties satisfied' % (cov.group(1), cov.group(2))
    elif 'VERIFICATION:- FAILED' in out and ('run out of memory' in out or 'CBMC failed' in out or 'CBMC timed out' in out):
        res['status'] = 'undecided'
        res['reason'] = 'CBMC ran out of memory / crashed (tool limit, not a verdict)'
    elif 'VERIFICATION:- FAILED' in out:
        # which checks failed?
        fails = []
        for blk in re.finditer(r'Check \d+: ([^\n]+)\n\s+- Status: FAILURE\n\s+- Description: "([^"]*)"(?:\n\s+- Location: ([^\n]+))?', out):
            fails.append((blk.group(1), blk.group(2), blk.group(3) or ''))
        sem = [f for f in fails if not re.search(r'unwind|unwinding', f[0] + f[1])]
        if fails and not sem:
            res['status'] = 'undecided'
            res['reason'] = 'unwinding assertion failed (bound too small for the changed code): ' + fails[0][1]
        elif fails:
            res['status'] = 'failed'
            res['failed_check'] = sem[0][0]
            res['failed_desc'] = sem[0][1] + ' @ ' + sem[0][2]
            res['all_failed'] = ['%s: %s' % (a, b) for a, b, c in sem[:6]]
        else:
            res['status'] = 'undecided'
            res['reason'] = 'FAILED without a failing check in the output'
    else:
        tail = out[-600:]
        res['reason'] = 'no verification result (compile error, unsupported construct or crash): ' + tail
    return res


def run_kani_leg(pid, harnesses, tier, outdir, jobs=None):
    jobs = jobs or (4 if tier == 'quick' else 2)
    from concurrent.futures import ThreadPoolExecutor
    scratch = tempfile.mkdtemp(prefix='verif-kani-')
    results = []
    try:
        try:
            prepare(scratch)
        except (KaniSetupError, subprocess.CalledProcessError) as e:
            return [dict(harness=h, status='undecided', reason='kani setup: %s' % e, complete=HARNESSES[h][0], bound=HARNESSES[h][1],
                         cmd='', functions=HARNESSES[h][2]) for h in harnesses]
        # build once (first harness) so that parallel runs only run CBMC
        first = harnesses[0]

        def one(h):
            complete, bound, funcs, tmo, mem = HARNESSES[h]
            out, timed_out, wall, cmd = run_one(scratch, h, tmo, mem)
            with open(os.path.join(outdir, 'kani-%s.log' % h), 'w') as f:
                f.write(out)
            r = parse(out)
            if timed_out:
                r['status'], r['reason'] = 'undecided', 'wall-clock limit %ds' % tmo
            r.update(harness=h, complete=complete, bound=bound, functions=funcs, cmd=cmd, wall_s=round(wall, 1),
                     output_tail=out[-3000:])
            if r['status'] == 'failed':
                r['witness'], r['witness_confirmed'] = playback(scratch, h, outdir)
            return r

        results.append(one(first))
        rest = harnesses[1:]
        if rest:
            with ThreadPoolExecutor(max_workers=jobs) as ex:
                results.extend(ex.map(one, rest))
    finally:
        shutil.rmtree(scratch, ignore_errors=True)
    return results


def playback(scratch, harness, outdir):
    """ask Kani for the concrete counterexample (a generated unit test with the failing input bytes)"""
    cmd = ['cargo', 'kani', '-Z', 'function-contracts', '-Z', 'stubbing', '-Z', 'concrete-playback', '--concrete-playback=print',
           '--harness', harness]
    env = dict(os.environ, CARGO_NET_OFFLINE='true')
    try:
        p = subprocess.run(cmd, cwd=scratch, env=env, stdout=subprocess.PIPE, stderr=subprocess.STDOUT, text=True, timeout=1800,
                           start_new_session=True)
    except subprocess.TimeoutExpired:
        return None, False
    m = re.search(r'Concrete playback unit test for `[^`]*`:\n```\n(.*?)```', p.stdout, re.S)
    if not m:
        return None, False
    test = m.group(1)
    decoded = decode_playback(test)
    txt = 'Kani counterexample for harness `%s` (concrete playback unit test; run with `cargo kani playback -Z concrete-playback --test <name>` ' \
          'in a copy of /repo prepared by vf/kani.py):\n\n```rust\n%s```\n\ninput bytes decoded: %s\n' % (harness, test, decoded)
    return txt, True


def decode_playback(test):
    vals = re.findall(r'vec!\[([0-9, ]*)\]', test)
    out = []
    for v in vals:
        bs = [int(x) for x in v.split(',') if x.strip()]
        out.append(bs)
    flat = [b[0] for b in out if len(b) == 1]
    s = ''.join(chr(b) if 32 <= b < 127 else '\\x%02x' % b for b in flat)
    return 'values=%s ; single-byte values as text: "%s"' % (out[:24], s)
