//! C06 / C07 / C14 (decode side): the decoders the Verus codec unit ASSUMES a contract for (the dependency's `Compact<u32>`, `u32`,
//! `u8`, `Option`) and the crate's derived `Decode` of the leaf types built from them, run on fully symbolic input bytes against an
//! independent canonical decoder written from the published layout.  Loop-free over the whole input domain: COMPLETE proofs.
//! Each harness checks the three clauses of the assumed `Decode` contract: sound (what is returned encodes to the bytes consumed),
//! canonical (only the canonical encoding is accepted) and complete (an input that starts with a canonical encoding is accepted).
use super::spec::spec_compact_u32;
use crate::interner::UntrackedSymbol;
use crate::prelude::any::TypeId;
use crate::{TypeDefArray, TypeDefPrimitive};
use crate::form::PortableForm;
use scale::{Compact, Decode};

type Sym = UntrackedSymbol<TypeId>;

/// does `b[..len]` start with the canonical compact encoding of some u32?  (independent of the dependency: written from the layout)
fn spec_compact_prefix(b: &[u8; 6], len: usize) -> Option<(u32, usize)> {
    if len == 0 {
        return None;
    }
    match b[0] & 0b11 {
        0 => Some(((b[0] >> 2) as u32, 1)),
        1 => {
            if len < 2 {
                return None;
            }
            let v = (((b[1] as u32) << 8) | b[0] as u32) >> 2;
            if v >= (1 << 6) { Some((v, 2)) } else { None }
        }
        2 => {
            if len < 4 {
                return None;
            }
            let v = (((b[3] as u32) << 24) | ((b[2] as u32) << 16) | ((b[1] as u32) << 8) | b[0] as u32) >> 2;
            if v >= (1 << 14) { Some((v, 4)) } else { None }
        }
        _ => {
            if b[0] != 0b11 || len < 5 {
                return None;
            }
            let v = ((b[4] as u32) << 24) | ((b[3] as u32) << 16) | ((b[2] as u32) << 8) | b[1] as u32;
            if v >= (1 << 30) { Some((v, 5)) } else { None }
        }
    }
}

fn check_compact(decoded: Option<u32>, used: usize, bytes: &[u8; 6], len: usize) {
    match (decoded, spec_compact_prefix(bytes, len)) {
        (Some(v), Some((w, n))) => {
            assert!(v == w && used == n, "decoder and layout agree on value and length");
            // sound + canonical, stated directly: the value re-encodes to exactly the bytes consumed
            let mut e = [0u8; 5];
            let k = spec_compact_u32(v, &mut e);
            assert!(k == used);
            let mut i = 0;
            while i < 5 {
                if i < k {
                    assert!(e[i] == bytes[i]);
                }
                i += 1;
            }
        }
        (None, None) => {}
        (Some(_), None) => panic!("accepted an input that does not start with a canonical encoding"),
        (None, Some(_)) => panic!("rejected an input that starts with a canonical encoding"),
    }
}

/// COMPLETE: the dependency's Compact<u32> decoder on every input of <= 6 bytes (one more than the longest encoding)
#[kani::proof]
#[kani::unwind(8)]
fn dec_compact_u32_all_inputs() {
    let bytes: [u8; 6] = kani::any();
    let len: usize = kani::any();
    kani::assume(len <= 6);
    let mut input: &[u8] = &bytes[..len];
    let r = <Compact<u32>>::decode(&mut input);
    let used = len - input.len();
    kani::cover!(r.is_ok() && used == 5, "five-byte class reachable");
    kani::cover!(r.is_err() && len == 5, "rejection of a full-length input reachable");
    check_compact(r.ok().map(|c| c.0), used, &bytes, len);
}

/// COMPLETE: the crate's derived Decode of UntrackedSymbol (`#[codec(compact)] id`) on every input of <= 6 bytes
#[kani::proof]
#[kani::unwind(8)]
fn dec_symbol_all_inputs() {
    let bytes: [u8; 6] = kani::any();
    let len: usize = kani::any();
    kani::assume(len <= 6);
    let mut input: &[u8] = &bytes[..len];
    let r = Sym::decode(&mut input);
    let used = len - input.len();
    kani::cover!(r.is_ok() && used == 4, "four-byte class reachable");
    check_compact(r.ok().map(|s| s.id), used, &bytes, len);
}

/// COMPLETE: derived Decode of TypeDefPrimitive: exactly the tags 0..14, one byte consumed, in the published order
#[kani::proof]
#[kani::unwind(4)]
fn dec_primitive_all_inputs() {
    let bytes: [u8; 2] = kani::any();
    let len: usize = kani::any();
    kani::assume(len <= 2);
    let mut input: &[u8] = &bytes[..len];
    let r = TypeDefPrimitive::decode(&mut input);
    let used = len - input.len();
    match r {
        Ok(p) => {
            assert!(len >= 1 && used == 1 && bytes[0] < 15);
            let tag: u8 = match p {
                TypeDefPrimitive::Bool => 0,
                TypeDefPrimitive::Char => 1,
                TypeDefPrimitive::Str => 2,
                TypeDefPrimitive::U8 => 3,
                TypeDefPrimitive::U16 => 4,
                TypeDefPrimitive::U32 => 5,
                TypeDefPrimitive::U64 => 6,
                TypeDefPrimitive::U128 => 7,
                TypeDefPrimitive::U256 => 8,
                TypeDefPrimitive::I8 => 9,
                TypeDefPrimitive::I16 => 10,
                TypeDefPrimitive::I32 => 11,
                TypeDefPrimitive::I64 => 12,
                TypeDefPrimitive::I128 => 13,
                TypeDefPrimitive::I256 => 14,
            };
            assert!(tag == bytes[0], "tag order of the layout");
        }
        Err(_) => assert!(len == 0 || bytes[0] >= 15, "every tag 0..14 is accepted"),
    }
}

/// COMPLETE: derived Decode of TypeDefArray (u32 LE length, then compact id) on every input of <= 10 bytes
#[kani::proof]
#[kani::unwind(12)]
fn dec_array_all_inputs() {
    let bytes: [u8; 10] = kani::any();
    let len: usize = kani::any();
    kani::assume(len <= 10);
    let mut input: &[u8] = &bytes[..len];
    let r = <TypeDefArray<PortableForm>>::decode(&mut input);
    let used = len - input.len();
    let mut tail = [0u8; 6];
    let mut i = 0;
    while i < 6 {
        tail[i] = bytes[4 + i];
        i += 1;
    }
    let spec = if len >= 4 { spec_compact_prefix(&tail, len - 4) } else { None };
    match (r, spec) {
        (Ok(a), Some((id, n))) => {
            assert!(a.len == u32::from_le_bytes([bytes[0], bytes[1], bytes[2], bytes[3]]), "length is the first four bytes, little endian");
            assert!(a.type_param.id == id && used == 4 + n);
        }
        (Err(_), None) => {}
        (Ok(_), None) => panic!("accepted a non-canonical array definition"),
        (Err(_), Some(_)) => panic!("rejected a canonical array definition"),
    }
}

/// COMPLETE: the dependency's Option<T> decoder composed with the derived symbol decoder (the `ty` member of a type parameter):
/// tag 0 = None, tag 1 = Some(compact id), every other first byte is rejected
#[kani::proof]
#[kani::unwind(8)]
fn dec_option_symbol_all_inputs() {
    let bytes: [u8; 7] = kani::any();
    let len: usize = kani::any();
    kani::assume(len <= 7);
    let mut input: &[u8] = &bytes[..len];
    let r = <Option<Sym>>::decode(&mut input);
    let used = len - input.len();
    let mut tail = [0u8; 6];
    let mut i = 0;
    while i < 6 {
        tail[i] = bytes[1 + i];
        i += 1;
    }
    match r {
        Ok(None) => assert!(len >= 1 && bytes[0] == 0 && used == 1),
        Ok(Some(s)) => {
            assert!(len >= 1 && bytes[0] == 1);
            match spec_compact_prefix(&tail, len - 1) {
                Some((id, n)) => assert!(s.id == id && used == 1 + n),
                None => panic!("accepted Some(..) with a non-canonical id"),
            }
        }
        Err(_) => assert!(len == 0 || bytes[0] > 1 || spec_compact_prefix(&tail, len - 1).is_none(), "every canonical input is accepted"),
    }
}

/// COMPLETE: derived Decode of TypeDefBitSequence (store id, then order id) on every input of <= 11 bytes
#[kani::proof]
#[kani::unwind(12)]
fn dec_bitsequence_all_inputs() {
    let bytes: [u8; 11] = kani::any();
    let len: usize = kani::any();
    kani::assume(len <= 11);
    let mut input: &[u8] = &bytes[..len];
    let r = <crate::TypeDefBitSequence<PortableForm>>::decode(&mut input);
    let used = len - input.len();
    let mut a = [0u8; 6];
    let mut i = 0;
    while i < 6 {
        a[i] = bytes[i];
        i += 1;
    }
    let first = spec_compact_prefix(&a, if len < 6 { len } else { 6 });
    match first {
        None => assert!(r.is_err(), "store id must be a canonical compact"),
        Some((store, n)) => {
            let mut b = [0u8; 6];
            let mut j = 0;
            while j < 6 {
                b[j] = bytes[n + j];   // n <= 5, n + 5 <= 10
                j += 1;
            }
            let rest = len - n;
            match (r, spec_compact_prefix(&b, if rest < 6 { rest } else { 6 })) {
                (Ok(d), Some((order, m))) => assert!(d.bit_store_type.id == store && d.bit_order_type.id == order && used == n + m, "store first, then order"),
                (Err(_), None) => {}
                (Ok(_), None) => panic!("accepted a non-canonical order id"),
                (Err(_), Some(_)) => panic!("rejected a canonical bit-sequence definition"),
            }
        }
    }
}
