//! Kani harnesses and executable contracts, compiled only under cfg(kani).
//! Injected by /verif/vf/kani.py into a scratch copy of the working tree as src/verif_kani/.
#![allow(dead_code, unused_imports, clippy::all)]

pub(crate) mod spec;
mod c18_ident;
mod c18_path;
mod c06_encode;
mod c06_decode;
mod standins;
mod std_contracts;
