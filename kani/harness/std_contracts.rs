//! Cross-checks of the contracts ASSUMED on std functions in the Verus units (DESIGN §4.A.13; a harness for the BTreeMap entry contract A.1/A.2 did not finish in 40 minutes under CBMC and was removed): the same clauses,
//! executed by CBMC on the real std code.  u8 classes: complete (all 256 values).  Everything else: bounded, sizes stated.

/// COMPLETE (all u8): the three byte classes are exactly the ranges the assumed contracts name
#[kani::proof]
fn std_u8_ascii_classes() {
    let c: u8 = kani::any();
    assert!(c.is_ascii_lowercase() == (b'a' <= c && c <= b'z'), "is_ascii_lowercase == [a-z]");
    assert!(c.is_ascii_uppercase() == (b'A' <= c && c <= b'Z'), "is_ascii_uppercase == [A-Z]");
    assert!(c.is_ascii_digit() == (b'0' <= c && c <= b'9'), "is_ascii_digit == [0-9]");
}

fn ascii<const N: usize>(bytes: &[u8; N], len: usize) -> &str {
    unsafe { core::str::from_utf8_unchecked(&bytes[..len]) }
}

/// BOUNDED (ASCII strings of length <= 6): strip_prefix("r#") is Some(rest) exactly when the string starts with "r#"
#[kani::proof]
#[kani::unwind(9)]
fn std_strip_prefix_small() {
    let bytes: [u8; 6] = kani::any();
    let len: usize = kani::any();
    kani::assume(len <= 6);
    kani::assume(bytes[0] < 128 && bytes[1] < 128 && bytes[2] < 128 && bytes[3] < 128 && bytes[4] < 128 && bytes[5] < 128);
    let s = ascii(&bytes, len);
    let starts = len >= 2 && bytes[0] == b'r' && bytes[1] == b'#';
    kani::cover!(starts, "a string with the prefix is reachable");
    match s.strip_prefix("r#") {
        Some(rest) => {
            assert!(starts, "Some only with the prefix");
            assert!(rest.len() == len - 2, "rest is the remainder");
            let rb = rest.as_bytes();
            let mut i = 0;
            while i < rb.len() {
                assert!(rb[i] == bytes[i + 2], "rest is the remainder, byte by byte");
                i += 1;
            }
        }
        None => assert!(!starts, "None only without the prefix"),
    }
}

/// BOUNDED (slices of <= 5 bytes): position returns the FIRST accepted index, last / split_last the final element and the rest
#[kani::proof]
#[kani::unwind(8)]
fn std_slice_iter_small() {
    let bytes: [u8; 5] = kani::any();
    let len: usize = kani::any();
    kani::assume(len <= 5);
    let k: u8 = kani::any();
    let t = &bytes[..len];
    match t.iter().position(|x| *x == k) {
        Some(p) => {
            assert!(p < len && t[p] == k, "position: the element is accepted");
            let mut j = 0;
            while j < p {
                assert!(t[j] != k, "position: nothing before it is accepted");
                j += 1;
            }
        }
        None => {
            let mut j = 0;
            while j < len {
                assert!(t[j] != k, "position: None means nothing is accepted");
                j += 1;
            }
        }
    }
    match t.iter().last() {
        Some(x) => assert!(len > 0 && *x == t[len - 1], "last: the final element"),
        None => assert!(len == 0, "last: None only for the empty slice"),
    }
    match t.split_last() {
        Some((x, init)) => {
            assert!(len > 0 && *x == t[len - 1] && init.len() == len - 1, "split_last: final element and a prefix");
            let mut j = 0;
            while j < init.len() {
                assert!(init[j] == t[j], "split_last: the prefix is the slice without its last element");
                j += 1;
            }
        }
        None => assert!(len == 0, "split_last: None only for the empty slice"),
    }
}

// ---- rule R20 / assumption A12: the iterator pipelines the four R20 functions use compute what the explicit loop computes ----
extern crate alloc;
use alloc::vec::Vec;

/// BOUNDED (<= 3 elements): `into_iter().map(f).collect::<Vec<_>>()` with a closure that mutates captured state calls f once per
/// item, in order, and keeps the results in order - exactly what `loop { match it.next() { Some(x) => out.push(f(x)), None => break } }` does
#[kani::proof]
#[kani::unwind(6)]
fn std_map_collect_is_the_loop() {
    let data: [u8; 3] = kani::any();
    let len: usize = kani::any();
    kani::assume(len <= 3);
    let src: Vec<u8> = data[..len].to_vec();
    // pipeline form (closure captures `calls` mutably, like register_types / map_into_portable capture the registry)
    let mut calls: u32 = 0;
    let a: Vec<u32> = src.clone().into_iter().map(|x| { calls += 1; (x as u32) * 8 + calls }).collect::<Vec<_>>();
    // loop form (rule R20)
    let mut calls2: u32 = 0;
    let b: Vec<u32> = { let mut out = Vec::new(); let mut it = src.into_iter(); loop { match it.next() { Some(x) => { out.push({ calls2 += 1; (x as u32) * 8 + calls2 }); } None => { break; } } } out };
    assert!(calls == calls2 && a.len() == b.len() && a.len() == len);
    let mut i = 0;
    while i < len {
        assert!(a[i] == b[i], "same results in the same order");
        i += 1;
    }
}

/// BOUNDED (<= 3 elements): `iter().enumerate().map(|(i, x)| ..).collect()` numbers the items 0, 1, 2 .. in order (finish)
#[kani::proof]
#[kani::unwind(6)]
fn std_enumerate_collect_is_the_loop() {
    let data: [u8; 3] = kani::any();
    let len: usize = kani::any();
    kani::assume(len <= 3);
    let src: &[u8] = &data[..len];
    let a: Vec<(u32, u8)> = src.iter().enumerate().map(|(i, x)| (i as u32, *x)).collect();
    let b: Vec<(u32, u8)> = { let mut out = Vec::new(); let mut n: usize = 0; let mut it = src.iter(); loop { match it.next() { Some(x) => { let i = n; n += 1; out.push((i as u32, *x)); } None => { break; } } } out };
    assert!(a.len() == len && b.len() == len);
    let mut i = 0;
    while i < len {
        assert!(a[i] == b[i] && a[i].0 == i as u32 && a[i].1 == data[i]);
        i += 1;
    }
}

/// BOUNDED (<= 3 elements): `into_iter().filter(p).collect()` keeps exactly the accepted items in order (TypeDefTuple::new)
#[kani::proof]
#[kani::unwind(6)]
fn std_filter_collect_is_the_loop() {
    let data: [u8; 3] = kani::any();
    let len: usize = kani::any();
    kani::assume(len <= 3);
    let k: u8 = kani::any();
    let src: Vec<u8> = data[..len].to_vec();
    let c: Vec<u8> = src.clone().into_iter().filter(|x| *x != k).collect();
    let d: Vec<u8> = { let mut out = Vec::new(); let mut it = src.into_iter(); loop { match it.next() { Some(x0) => { if { let x = &x0; *x != k } { out.push(x0); } } None => { break; } } } out };
    assert!(c.len() == d.len() && c.len() <= len);
    let mut j = 0;
    while j < c.len() {
        assert!(c[j] == d[j] && c[j] != k);
        j += 1;
    }
}

/// COMPLETE (all pairs of u32): mem::replace returns the old value and stores the new one (assumption A3, used by retain)
#[kani::proof]
fn std_mem_replace_u32() {
    let mut a: u32 = kani::any();
    let b: u32 = kani::any();
    let old = a;
    let r = core::mem::replace(&mut a, b);
    assert!(r == old && a == b);
}

/// BOUNDED (<= 4 ASCII bytes / <= 4 elements): String::from(&str) keeps the bytes (A6), <[T]>::to_vec keeps the elements (A8)
#[kani::proof]
#[kani::unwind(7)]
fn std_string_from_and_to_vec_small() {
    let bytes: [u8; 4] = kani::any();
    let len: usize = kani::any();
    kani::assume(len <= 4);
    kani::assume(bytes[0] < 128 && bytes[1] < 128 && bytes[2] < 128 && bytes[3] < 128);
    let s = ascii(&bytes, len);
    let owned = alloc::string::String::from(s);
    let v = bytes[..len].to_vec();
    assert!(owned.len() == len && v.len() == len);
    let ob = owned.as_bytes();
    let mut i = 0;
    while i < len {
        assert!(ob[i] == bytes[i] && v[i] == bytes[i]);
        i += 1;
    }
}
