//! Cross-checks of the contracts ASSUMED on std functions in the Verus units (DESIGN §4.A.13; a harness for the BTreeMap entry contract A.1/A.2 did not finish in 40 minutes under CBMC and was removed): the same clauses,
//! executed by CBMC on the real std code.  u8 classes: complete (all 256 values).  Everything else: bounded, sizes stated.

/// COMPLETE (all u8): the three byte classes are exactly the ranges the assumed contracts name
#[kani::proof]
fn std_u8_ascii_classes() {
    let c: u8 = kani::any();
    assert!(c.is_ascii_lowercase() == (b'a' <= c && c <= b'z'), "is_ascii_lowercase == [a-z]");
    assert!(c.is_ascii_uppercase() == (b'A' <= c && c <= b'Z'), "is_ascii_uppercase == [A-Z]");
    assert!(c.is_ascii_digit() == (b'0' <= c && c <= b'9'), "is_ascii_digit == [0-9]");
}

fn ascii<const N: usize>(bytes: &[u8; N], len: usize) -> &str {
    unsafe { core::str::from_utf8_unchecked(&bytes[..len]) }
}

/// BOUNDED (ASCII strings of length <= 6): strip_prefix("r#") is Some(rest) exactly when the string starts with "r#"
#[kani::proof]
#[kani::unwind(9)]
fn std_strip_prefix_small() {
    let bytes: [u8; 6] = kani::any();
    let len: usize = kani::any();
    kani::assume(len <= 6);
    kani::assume(bytes[0] < 128 && bytes[1] < 128 && bytes[2] < 128 && bytes[3] < 128 && bytes[4] < 128 && bytes[5] < 128);
    let s = ascii(&bytes, len);
    let starts = len >= 2 && bytes[0] == b'r' && bytes[1] == b'#';
    kani::cover!(starts, "a string with the prefix is reachable");
    match s.strip_prefix("r#") {
        Some(rest) => {
            assert!(starts, "Some only with the prefix");
            assert!(rest.len() == len - 2, "rest is the remainder");
            let rb = rest.as_bytes();
            let mut i = 0;
            while i < rb.len() {
                assert!(rb[i] == bytes[i + 2], "rest is the remainder, byte by byte");
                i += 1;
            }
        }
        None => assert!(!starts, "None only without the prefix"),
    }
}

/// BOUNDED (slices of <= 5 bytes): position returns the FIRST accepted index, last / split_last the final element and the rest
#[kani::proof]
#[kani::unwind(8)]
fn std_slice_iter_small() {
    let bytes: [u8; 5] = kani::any();
    let len: usize = kani::any();
    kani::assume(len <= 5);
    let k: u8 = kani::any();
    let t = &bytes[..len];
    match t.iter().position(|x| *x == k) {
        Some(p) => {
            assert!(p < len && t[p] == k, "position: the element is accepted");
            let mut j = 0;
            while j < p {
                assert!(t[j] != k, "position: nothing before it is accepted");
                j += 1;
            }
        }
        None => {
            let mut j = 0;
            while j < len {
                assert!(t[j] != k, "position: None means nothing is accepted");
                j += 1;
            }
        }
    }
    match t.iter().last() {
        Some(x) => assert!(len > 0 && *x == t[len - 1], "last: the final element"),
        None => assert!(len == 0, "last: None only for the empty slice"),
    }
    match t.split_last() {
        Some((x, init)) => {
            assert!(len > 0 && *x == t[len - 1] && init.len() == len - 1, "split_last: final element and a prefix");
            let mut j = 0;
            while j < init.len() {
                assert!(init[j] == t[j], "split_last: the prefix is the slice without its last element");
                j += 1;
            }
        }
        None => assert!(len == 0, "split_last: None only for the empty slice"),
    }
}
