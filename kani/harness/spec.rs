//! Independent executable specifications (written from the property statements, not from the code).

/// C18: `(r#)?[A-Za-z_][A-Za-z0-9_]*` over bytes; anything non-ASCII is rejected by the class tests.
pub fn spec_ident(b: &[u8]) -> bool {
    let body: &[u8] = if b.len() >= 2 && b[0] == b'r' && b[1] == b'#' { &b[2..] } else { b };
    if body.is_empty() {
        return false;
    }
    let h = body[0];
    if !(h == b'_' || (h >= b'a' && h <= b'z') || (h >= b'A' && h <= b'Z')) {
        return false;
    }
    let mut i = 1;
    while i < body.len() {
        let c = body[i];
        if !(c == b'_' || (c >= b'a' && c <= b'z') || (c >= b'A' && c <= b'Z') || (c >= b'0' && c <= b'9')) {
            return false;
        }
        i += 1;
    }
    true
}

/// C06: SCALE compact encoding of a u32, into a fixed buffer; returns the number of bytes.
pub fn spec_compact_u32(v: u32, out: &mut [u8; 5]) -> usize {
    if v < (1 << 6) {
        out[0] = (v as u8) << 2;
        1
    } else if v < (1 << 14) {
        let x = ((v as u16) << 2) | 0b01;
        out[0] = x as u8;
        out[1] = (x >> 8) as u8;
        2
    } else if v < (1 << 30) {
        let x = (v << 2) | 0b10;
        out[0] = x as u8;
        out[1] = (x >> 8) as u8;
        out[2] = (x >> 16) as u8;
        out[3] = (x >> 24) as u8;
        4
    } else {
        out[0] = 0b11;
        out[1] = v as u8;
        out[2] = (v >> 8) as u8;
        out[3] = (v >> 16) as u8;
        out[4] = (v >> 24) as u8;
        5
    }
}

/// fixed-size byte sink for the spec encoder (no Vec: Vec-building specs blow CBMC up)
pub struct Sink<const N: usize> {
    pub buf: [u8; N],
    pub len: usize,
}
impl<const N: usize> Sink<N> {
    pub fn new() -> Self {
        Sink { buf: [0u8; N], len: 0 }
    }
    pub fn byte(&mut self, b: u8) {
        self.buf[self.len] = b;
        self.len += 1;
    }
    pub fn bytes(&mut self, bs: &[u8]) {
        let mut i = 0;
        while i < bs.len() {
            self.byte(bs[i]);
            i += 1;
        }
    }
    pub fn compact(&mut self, v: u32) {
        let mut t = [0u8; 5];
        let n = spec_compact_u32(v, &mut t);
        self.bytes(&t[..n]);
    }
    pub fn u32_le(&mut self, v: u32) {
        self.bytes(&v.to_le_bytes());
    }
    pub fn str(&mut self, s: &str) {
        self.compact(s.len() as u32);
        self.bytes(s.as_bytes());
    }
    pub fn eq(&self, other: &[u8]) -> bool {
        if other.len() != self.len {
            return false;
        }
        let mut i = 0;
        while i < self.len {
            if self.buf[i] != other[i] {
                return false;
            }
            i += 1;
        }
        true
    }
}
