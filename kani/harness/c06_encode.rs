//! C06 (encode side): the real derived `Encode` impls against an independent encoder written from
//! the published V14 layout.  Leaves are loop-free over their full domain (complete proofs);
//! containers use symbolic shapes (Option presence, Vec lengths up to a bound) with symbolic scalars
//! and distinct concrete marker strings per position (BOUNDED).
use super::spec::Sink;
use crate::form::PortableForm;
use crate::interner::UntrackedSymbol;
use crate::prelude::any::TypeId;
use crate::{
    Field, Path, PortableRegistry, PortableType, Type, TypeDef, TypeDefArray, TypeDefBitSequence, TypeDefCompact,
    TypeDefComposite, TypeDefPrimitive, TypeDefSequence, TypeDefTuple, TypeDefVariant, TypeParameter, Variant,
};
extern crate alloc;
use alloc::string::String;
use alloc::vec::Vec;
use scale::Encode;

type Sym = UntrackedSymbol<TypeId>;
fn sym(id: u32) -> Sym {
    id.into()
}

// ------------------------------------------------------------------ the layout, as a spec encoder
fn sp_opt_str(s: &mut Sink<256>, o: &Option<String>) {
    match o {
        None => s.byte(0),
        Some(x) => {
            s.byte(1);
            s.str(x)
        }
    }
}
fn sp_strs(s: &mut Sink<256>, v: &Vec<String>) {
    s.compact(v.len() as u32);
    let mut i = 0;
    while i < v.len() {
        s.str(&v[i]);
        i += 1;
    }
}
/// field = (optional name, compact id, optional type name, docs)
fn sp_field(s: &mut Sink<256>, f: &Field<PortableForm>) {
    sp_opt_str(s, &f.name);
    s.compact(f.ty.id);
    sp_opt_str(s, &f.type_name);
    sp_strs(s, &f.docs);
}
fn sp_fields(s: &mut Sink<256>, v: &Vec<Field<PortableForm>>) {
    s.compact(v.len() as u32);
    let mut i = 0;
    while i < v.len() {
        sp_field(s, &v[i]);
        i += 1;
    }
}
/// variant = (name, fields, u8 index, docs)
fn sp_variant(s: &mut Sink<256>, v: &Variant<PortableForm>) {
    s.str(&v.name);
    sp_fields(s, &v.fields);
    s.byte(v.index);
    sp_strs(s, &v.docs);
}
fn sp_prim(p: &TypeDefPrimitive) -> u8 {
    match p {
        TypeDefPrimitive::Bool => 0,
        TypeDefPrimitive::Char => 1,
        TypeDefPrimitive::Str => 2,
        TypeDefPrimitive::U8 => 3,
        TypeDefPrimitive::U16 => 4,
        TypeDefPrimitive::U32 => 5,
        TypeDefPrimitive::U64 => 6,
        TypeDefPrimitive::U128 => 7,
        TypeDefPrimitive::U256 => 8,
        TypeDefPrimitive::I8 => 9,
        TypeDefPrimitive::I16 => 10,
        TypeDefPrimitive::I32 => 11,
        TypeDefPrimitive::I64 => 12,
        TypeDefPrimitive::I128 => 13,
        TypeDefPrimitive::I256 => 14,
    }
}
/// definition tagged 0..7
fn sp_def(s: &mut Sink<256>, d: &TypeDef<PortableForm>) {
    match d {
        TypeDef::Composite(c) => {
            s.byte(0);
            sp_fields(s, &c.fields)
        }
        TypeDef::Variant(v) => {
            s.byte(1);
            s.compact(v.variants.len() as u32);
            let mut i = 0;
            while i < v.variants.len() {
                sp_variant(s, &v.variants[i]);
                i += 1;
            }
        }
        TypeDef::Sequence(q) => {
            s.byte(2);
            s.compact(q.type_param.id)
        }
        TypeDef::Array(a) => {
            s.byte(3);
            s.u32_le(a.len);
            s.compact(a.type_param.id)
        }
        TypeDef::Tuple(t) => {
            s.byte(4);
            s.compact(t.fields.len() as u32);
            let mut i = 0;
            while i < t.fields.len() {
                s.compact(t.fields[i].id);
                i += 1;
            }
        }
        TypeDef::Primitive(p) => {
            s.byte(5);
            s.byte(sp_prim(p))
        }
        TypeDef::Compact(c) => {
            s.byte(6);
            s.compact(c.type_param.id)
        }
        TypeDef::BitSequence(b) => {
            s.byte(7);
            s.compact(b.bit_store_type.id);
            s.compact(b.bit_order_type.id)
        }
    }
}
/// type = path, parameters (name, optional compact id), definition, docs
fn sp_type(s: &mut Sink<256>, t: &Type<PortableForm>) {
    sp_strs(s, &t.path.segments);
    s.compact(t.type_params.len() as u32);
    let mut i = 0;
    while i < t.type_params.len() {
        s.str(&t.type_params[i].name);
        match &t.type_params[i].ty {
            None => s.byte(0),
            Some(x) => {
                s.byte(1);
                s.compact(x.id)
            }
        }
        i += 1;
    }
    sp_def(s, &t.type_def);
    sp_strs(s, &t.docs);
}
/// registry = compact-length vector of (compact id, type)
fn sp_registry(s: &mut Sink<256>, r: &PortableRegistry) {
    s.compact(r.types.len() as u32);
    let mut i = 0;
    while i < r.types.len() {
        s.compact(r.types[i].id);
        sp_type(s, &r.types[i].ty);
        i += 1;
    }
}

// ------------------------------------------------------------------ complete (loop-free) leaves
/// COMPLETE: compact id, all u32 (all four size classes)
#[kani::proof]
#[kani::unwind(24)]
fn enc_symbol_compact() {
    let id: u32 = kani::any();
    let mut s = Sink::<256>::new();
    s.compact(id);
    let e = sym(id).encode();
    kani::cover!(id >= (1 << 30), "four-byte-plus class reachable");
    assert!(s.eq(&e), "UntrackedSymbol encodes as compact(id)");
}

fn any_prim() -> TypeDefPrimitive {
    let k: u8 = kani::any();
    kani::assume(k < 15);
    match k {
        0 => TypeDefPrimitive::Bool,
        1 => TypeDefPrimitive::Char,
        2 => TypeDefPrimitive::Str,
        3 => TypeDefPrimitive::U8,
        4 => TypeDefPrimitive::U16,
        5 => TypeDefPrimitive::U32,
        6 => TypeDefPrimitive::U64,
        7 => TypeDefPrimitive::U128,
        8 => TypeDefPrimitive::U256,
        9 => TypeDefPrimitive::I8,
        10 => TypeDefPrimitive::I16,
        11 => TypeDefPrimitive::I32,
        12 => TypeDefPrimitive::I64,
        13 => TypeDefPrimitive::I128,
        _ => TypeDefPrimitive::I256,
    }
}

/// COMPLETE (full domain, loop-free): sequence definition, tag 2, compact id
#[kani::proof]
#[kani::unwind(24)]
fn enc_def_sequence() {
    check_def_leaf(&TypeDef::Sequence(TypeDefSequence::new(sym(kani::any()))));
}
/// COMPLETE: array definition, tag 3, u32 LE length THEN compact id
#[kani::proof]
#[kani::unwind(24)]
fn enc_def_array() {
    let a: u32 = kani::any();
    let b: u32 = kani::any();
    kani::cover!(a != b, "distinct len / id reachable");
    check_def_leaf(&TypeDef::Array(TypeDefArray::new(a, sym(b))));
}
/// COMPLETE: primitive definition, tag 5, all 15 primitive tags
#[kani::proof]
#[kani::unwind(24)]
fn enc_def_primitive() {
    check_def_leaf(&TypeDef::Primitive(any_prim()));
}
/// COMPLETE: compact definition, tag 6
#[kani::proof]
#[kani::unwind(24)]
fn enc_def_compact() {
    check_def_leaf(&TypeDef::Compact(TypeDefCompact::new(sym(kani::any()))));
}
/// COMPLETE: bit-sequence definition, tag 7, store id THEN order id
#[kani::proof]
#[kani::unwind(24)]
fn enc_def_bitsequence() {
    let a: u32 = kani::any();
    let b: u32 = kani::any();
    kani::cover!(a != b, "distinct store / order reachable");
    check_def_leaf(&TypeDef::BitSequence(TypeDefBitSequence::new_portable(sym(a), sym(b))));
}
fn check_def_leaf(d: &TypeDef<PortableForm>) {
    let mut k = Sink::<256>::new();
    sp_def(&mut k, d);
    let e = d.encode();
    assert!(k.eq(&e), "definition kinds 2,3,5,6,7 have the published layout");
}

// ------------------------------------------------------------------ bounded containers
// Fixed shapes (concrete container lengths and marker strings, every scalar symbolic over its full
// domain).  Symbolic shapes, and fixed shapes with more than one string, made CBMC run out of
// memory or run for > 15 min (symbolic execution of Vec<u8> growth and String clones), so only the
// two shapes below are kept; the remaining container layouts (variant, composite / variant
// definitions, type, parameter, path, registry) are covered by the native bounded leg only.
fn s(x: &str) -> String {
    String::from(x)
}
fn field_a() -> Field<PortableForm> {
    Field { name: Some(s("n")), ty: sym(kani::any()), type_name: None, docs: Vec::new() }
}
fn check_def(d: &TypeDef<PortableForm>) {
    let mut k = Sink::<256>::new();
    sp_def(&mut k, d);
    let e = d.encode();
    assert!(k.eq(&e), "definition layout");
}

/// BOUNDED (shape: name present, no type name, no docs): field = (optional name, compact id, optional type name, docs)
#[kani::proof]
#[kani::unwind(24)]
fn enc_field_a() {
    let f = field_a();
    let mut k = Sink::<256>::new();
    sp_field(&mut k, &f);
    assert!(k.eq(&f.encode()), "field layout (shape a)");
}





/// BOUNDED (shape: two members, ids symbolic): tuple definition, tag 4, members in order
#[kani::proof]
#[kani::unwind(24)]
fn enc_def_tuple() {
    let mut ids = Vec::new();
    ids.push(sym(kani::any()));
    ids.push(sym(kani::any()));
    check_def(&TypeDef::Tuple(TypeDefTuple::new_portable(ids)));
}


