//! C06 (encode side): the real derived `Encode` impls against an independent encoder written from
//! the published V14 layout.  Leaves are loop-free over their full domain (complete proofs);
//! containers use symbolic shapes (Option presence, Vec lengths up to a bound) with symbolic scalars
//! and distinct concrete marker strings per position (BOUNDED).
use super::spec::Sink;
use crate::form::PortableForm;
use crate::interner::UntrackedSymbol;
use crate::prelude::any::TypeId;
use crate::{
    Field, Path, PortableRegistry, PortableType, Type, TypeDef, TypeDefArray, TypeDefBitSequence, TypeDefCompact,
    TypeDefComposite, TypeDefPrimitive, TypeDefSequence, TypeDefTuple, TypeDefVariant, TypeParameter, Variant,
};
extern crate alloc;
use alloc::string::String;
use alloc::vec::Vec;
use scale::Encode;

type Sym = UntrackedSymbol<TypeId>;
fn sym(id: u32) -> Sym {
    id.into()
}

// ------------------------------------------------------------------ the layout, as a spec encoder
fn sp_opt_str(s: &mut Sink<256>, o: &Option<String>) {
    match o {
        None => s.byte(0),
        Some(x) => {
            s.byte(1);
            s.str(x)
        }
    }
}
fn sp_strs(s: &mut Sink<256>, v: &Vec<String>) {
    s.compact(v.len() as u32);
    let mut i = 0;
    while i < v.len() {
        s.str(&v[i]);
        i += 1;
    }
}
/// field = (optional name, compact id, optional type name, docs)
fn sp_field(s: &mut Sink<256>, f: &Field<PortableForm>) {
    sp_opt_str(s, &f.name);
    s.compact(f.ty.id);
    sp_opt_str(s, &f.type_name);
    sp_strs(s, &f.docs);
}
fn sp_fields(s: &mut Sink<256>, v: &Vec<Field<PortableForm>>) {
    s.compact(v.len() as u32);
    let mut i = 0;
    while i < v.len() {
        sp_field(s, &v[i]);
        i += 1;
    }
}
/// variant = (name, fields, u8 index, docs)
fn sp_variant(s: &mut Sink<256>, v: &Variant<PortableForm>) {
    s.str(&v.name);
    sp_fields(s, &v.fields);
    s.byte(v.index);
    sp_strs(s, &v.docs);
}
fn sp_prim(p: &TypeDefPrimitive) -> u8 {
    match p {
        TypeDefPrimitive::Bool => 0,
        TypeDefPrimitive::Char => 1,
        TypeDefPrimitive::Str => 2,
        TypeDefPrimitive::U8 => 3,
        TypeDefPrimitive::U16 => 4,
        TypeDefPrimitive::U32 => 5,
        TypeDefPrimitive::U64 => 6,
        TypeDefPrimitive::U128 => 7,
        TypeDefPrimitive::U256 => 8,
        TypeDefPrimitive::I8 => 9,
        TypeDefPrimitive::I16 => 10,
        TypeDefPrimitive::I32 => 11,
        TypeDefPrimitive::I64 => 12,
        TypeDefPrimitive::I128 => 13,
        TypeDefPrimitive::I256 => 14,
    }
}
/// definition tagged 0..7
fn sp_def(s: &mut Sink<256>, d: &TypeDef<PortableForm>) {
    match d {
        TypeDef::Composite(c) => {
            s.byte(0);
            sp_fields(s, &c.fields)
        }
        TypeDef::Variant(v) => {
            s.byte(1);
            s.compact(v.variants.len() as u32);
            let mut i = 0;
            while i < v.variants.len() {
                sp_variant(s, &v.variants[i]);
                i += 1;
            }
        }
        TypeDef::Sequence(q) => {
            s.byte(2);
            s.compact(q.type_param.id)
        }
        TypeDef::Array(a) => {
            s.byte(3);
            s.u32_le(a.len);
            s.compact(a.type_param.id)
        }
        TypeDef::Tuple(t) => {
            s.byte(4);
            s.compact(t.fields.len() as u32);
            let mut i = 0;
            while i < t.fields.len() {
                s.compact(t.fields[i].id);
                i += 1;
            }
        }
        TypeDef::Primitive(p) => {
            s.byte(5);
            s.byte(sp_prim(p))
        }
        TypeDef::Compact(c) => {
            s.byte(6);
            s.compact(c.type_param.id)
        }
        TypeDef::BitSequence(b) => {
            s.byte(7);
            s.compact(b.bit_store_type.id);
            s.compact(b.bit_order_type.id)
        }
    }
}
/// type = path, parameters (name, optional compact id), definition, docs
fn sp_type(s: &mut Sink<256>, t: &Type<PortableForm>) {
    sp_strs(s, &t.path.segments);
    s.compact(t.type_params.len() as u32);
    let mut i = 0;
    while i < t.type_params.len() {
        s.str(&t.type_params[i].name);
        match &t.type_params[i].ty {
            None => s.byte(0),
            Some(x) => {
                s.byte(1);
                s.compact(x.id)
            }
        }
        i += 1;
    }
    sp_def(s, &t.type_def);
    sp_strs(s, &t.docs);
}
/// registry = compact-length vector of (compact id, type)
fn sp_registry(s: &mut Sink<256>, r: &PortableRegistry) {
    s.compact(r.types.len() as u32);
    let mut i = 0;
    while i < r.types.len() {
        s.compact(r.types[i].id);
        sp_type(s, &r.types[i].ty);
        i += 1;
    }
}

// ------------------------------------------------------------------ complete (loop-free) leaves
/// COMPLETE: compact id, all u32 (all four size classes)
#[kani::proof]
#[kani::unwind(8)]
fn enc_symbol_compact() {
    let id: u32 = kani::any();
    let mut s = Sink::<256>::new();
    s.compact(id);
    let e = sym(id).encode();
    kani::cover!(id >= (1 << 30), "four-byte-plus class reachable");
    assert!(s.eq(&e), "UntrackedSymbol encodes as compact(id)");
}

fn any_prim() -> TypeDefPrimitive {
    let k: u8 = kani::any();
    kani::assume(k < 15);
    match k {
        0 => TypeDefPrimitive::Bool,
        1 => TypeDefPrimitive::Char,
        2 => TypeDefPrimitive::Str,
        3 => TypeDefPrimitive::U8,
        4 => TypeDefPrimitive::U16,
        5 => TypeDefPrimitive::U32,
        6 => TypeDefPrimitive::U64,
        7 => TypeDefPrimitive::U128,
        8 => TypeDefPrimitive::U256,
        9 => TypeDefPrimitive::I8,
        10 => TypeDefPrimitive::I16,
        11 => TypeDefPrimitive::I32,
        12 => TypeDefPrimitive::I64,
        13 => TypeDefPrimitive::I128,
        _ => TypeDefPrimitive::I256,
    }
}

/// COMPLETE: the five non-container definition kinds over their full domain: tags 2,3,5,6,7, array =
/// u32 LE length then compact id, bit sequence = store then order, all 15 primitive tags
#[kani::proof]
#[kani::unwind(8)]
fn enc_typedef_leaves() {
    let k: u8 = kani::any();
    kani::assume(k < 5);
    let a: u32 = kani::any();
    let b: u32 = kani::any();
    let d: TypeDef<PortableForm> = match k {
        0 => TypeDef::Sequence(TypeDefSequence::new(sym(a))),
        1 => TypeDef::Array(TypeDefArray::new(a, sym(b))),
        2 => TypeDef::Primitive(any_prim()),
        3 => TypeDef::Compact(TypeDefCompact::new(sym(a))),
        _ => TypeDef::BitSequence(TypeDefBitSequence::new_portable(sym(a), sym(b))),
    };
    let mut s = Sink::<256>::new();
    sp_def(&mut s, &d);
    let e = d.encode();
    kani::cover!(k == 1 && a != b, "array with distinct len/id reachable");
    assert!(s.eq(&e), "definition kinds 2,3,5,6,7 have the published layout");
}

// ------------------------------------------------------------------ bounded containers
fn marker(tag: &str, on: bool) -> Option<String> {
    if on {
        Some(String::from(tag))
    } else {
        None
    }
}
fn docs(n: usize, a: &str, b: &str) -> Vec<String> {
    let mut v = Vec::new();
    if n >= 1 {
        v.push(String::from(a));
    }
    if n >= 2 {
        v.push(String::from(b));
    }
    v
}
fn any_field(maxdocs: usize) -> Field<PortableForm> {
    let nd: usize = kani::any();
    kani::assume(nd <= maxdocs);
    Field { name: marker("n", kani::any()), ty: sym(kani::any()), type_name: marker("T", kani::any()), docs: docs(nd, "d", "ee") }
}
fn any_fields(max: usize, maxdocs: usize) -> Vec<Field<PortableForm>> {
    let n: usize = kani::any();
    kani::assume(n <= max);
    let mut v = Vec::new();
    let mut i = 0;
    while i < n {
        v.push(any_field(maxdocs));
        i += 1;
    }
    v
}

/// BOUNDED (docs <= 2, marker strings): field = (optional name, compact id, optional type name, docs)
#[kani::proof]
#[kani::unwind(8)]
fn enc_field() {
    let f = any_field(2);
    let mut s = Sink::<256>::new();
    sp_field(&mut s, &f);
    let e = f.encode();
    kani::cover!(f.name.is_some() && f.type_name.is_none(), "name without type name reachable");
    assert!(s.eq(&e), "field layout");
}

/// BOUNDED (fields <= 1, docs <= 1): variant = (name, fields, u8 index, docs)
#[kani::proof]
#[kani::unwind(8)]
fn enc_variant() {
    let nd: usize = kani::any();
    kani::assume(nd <= 1);
    let v = Variant { name: String::from("V"), fields: any_fields(1, 1), index: kani::any(), docs: docs(nd, "x", "") };
    let mut s = Sink::<256>::new();
    sp_variant(&mut s, &v);
    let e = v.encode();
    assert!(s.eq(&e), "variant layout");
}

/// BOUNDED (<= 1 element per container): composite, variant and tuple definitions (tags 0, 1, 4)
#[kani::proof]
#[kani::unwind(8)]
fn enc_typedef_containers() {
    let k: u8 = kani::any();
    kani::assume(k < 3);
    let d: TypeDef<PortableForm> = match k {
        0 => TypeDef::Composite(TypeDefComposite::new(any_fields(1, 0))),
        1 => {
            let nv: usize = kani::any();
            kani::assume(nv <= 1);
            let mut vs = Vec::new();
            if nv == 1 {
                vs.push(Variant { name: String::from("V"), fields: any_fields(1, 0), index: kani::any(), docs: Vec::new() });
            }
            TypeDef::Variant(TypeDefVariant::new(vs))
        }
        _ => {
            let n: usize = kani::any();
            kani::assume(n <= 2);
            let mut ids = Vec::new();
            if n >= 1 {
                ids.push(sym(kani::any()));
            }
            if n >= 2 {
                ids.push(sym(kani::any()));
            }
            TypeDef::Tuple(TypeDefTuple::new_portable(ids))
        }
    };
    let mut s = Sink::<256>::new();
    sp_def(&mut s, &d);
    let e = d.encode();
    assert!(s.eq(&e), "definition kinds 0,1,4 have the published layout");
}

/// BOUNDED (path <= 2 segments, <= 1 parameter, leaf definition, docs <= 1; ids symbolic):
/// type = path, parameters (name, optional compact id), definition, docs;
/// registry = compact length, then (compact id, type)
#[kani::proof]
#[kani::unwind(8)]
fn enc_type_and_registry() {
    let np: usize = kani::any();
    kani::assume(np <= 2);
    let path = Path::<PortableForm> { segments: docs(np, "a", "bb") };
    let nparam: usize = kani::any();
    kani::assume(nparam <= 1);
    let mut params = Vec::new();
    if nparam == 1 {
        let has: bool = kani::any();
        params.push(TypeParameter::<PortableForm> { name: String::from("P"), ty: if has { Some(sym(kani::any())) } else { None } });
    }
    let nd: usize = kani::any();
    kani::assume(nd <= 1);
    let ty = Type::<PortableForm> { path, type_params: params, type_def: TypeDef::Array(TypeDefArray::new(kani::any(), sym(kani::any()))), docs: docs(nd, "q", "") };
    let mut s = Sink::<256>::new();
    sp_type(&mut s, &ty);
    let e = ty.encode();
    assert!(s.eq(&e), "type layout");
    let nreg: usize = kani::any();
    kani::assume(nreg <= 1);
    let mut types = Vec::new();
    if nreg == 1 {
        types.push(PortableType { id: kani::any(), ty });
    }
    let reg = PortableRegistry { types };
    let mut s2 = Sink::<256>::new();
    sp_registry(&mut s2, &reg);
    let e2 = reg.encode();
    assert!(s2.eq(&e2), "registry layout: compact length, then (compact id, type)");
}
