//! C18, identifiers: the real `is_rust_identifier` against `spec_ident`.
use super::spec::spec_ident;
use crate::utils::is_rust_identifier;

fn ascii_str<const N: usize>(bytes: &[u8; N], len: usize) -> &str {
    // all bytes < 128 (assumed by the caller), hence valid UTF-8
    unsafe { core::str::from_utf8_unchecked(&bytes[..len]) }
}

macro_rules! ident_ascii {
    ($name:ident, $n:expr, $u:literal) => {
        /// BOUNDED: every ASCII string of length <= $n
        #[kani::proof]
        #[kani::unwind($u)]
        fn $name() {
            let bytes: [u8; $n] = kani::any();
            let len: usize = kani::any();
            kani::assume(len <= $n);
            let mut i = 0;
            while i < $n {
                kani::assume(bytes[i] < 128);
                i += 1;
            }
            let s = ascii_str(&bytes, len);
            kani::cover!(len == $n && spec_ident(&bytes[..len]), "a valid identifier of maximal length is reachable");
            kani::cover!(len >= 3 && bytes[0] == b'r' && bytes[1] == b'#', "raw prefix reachable");
            assert!(is_rust_identifier(s) == spec_ident(&bytes[..len]), "is_rust_identifier(s) == spec_ident(s)");
        }
    };
}
ident_ascii!(ident_ascii_8, 8, 11);
ident_ascii!(ident_ascii_12, 12, 15);

/// BOUNDED: strings  <ascii prefix <= 2> <one arbitrary char> <ascii suffix <= 1>; a non-ASCII char
/// anywhere makes the string invalid, an ASCII one must agree with the spec.
#[kani::proof]
#[kani::unwind(10)]
fn ident_unicode_char() {
    let c: char = kani::any();
    let pre: [u8; 2] = kani::any();
    let npre: usize = kani::any();
    kani::assume(npre <= 2);
    kani::assume(pre[0] < 128 && pre[1] < 128);
    let suf: u8 = kani::any();
    let has_suf: bool = kani::any();
    kani::assume(suf < 128);
    let mut buf = [0u8; 8];
    let mut n = 0;
    let mut i = 0;
    while i < npre {
        buf[n] = pre[i];
        n += 1;
        i += 1;
    }
    let mut cb = [0u8; 4];
    let cs = c.encode_utf8(&mut cb);
    let cl = cs.len();
    let mut j = 0;
    while j < cl {
        buf[n] = cb[j];
        n += 1;
        j += 1;
    }
    if has_suf {
        buf[n] = suf;
        n += 1;
    }
    let s = unsafe { core::str::from_utf8_unchecked(&buf[..n]) };
    kani::cover!(!c.is_ascii(), "non-ASCII char reachable");
    if c.is_ascii() {
        assert!(is_rust_identifier(s) == spec_ident(&buf[..n]), "ASCII: agrees with spec");
    } else {
        assert!(!is_rust_identifier(s), "non-ASCII strings are never identifiers");
    }
}
