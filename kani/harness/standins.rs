//! BOUNDED stand-ins for the functions of /repo that Verus cannot take (closures capturing `&mut`,
//! tuple-pattern closures, `enumerate`, fn pointers).  Each checks the real function against the
//! executable form of the contract the Verus units ASSUME for it.  Never counted as proved.
use crate::form::{MetaForm, PortableForm};
use crate::interner::UntrackedSymbol;
use crate::prelude::any::TypeId;
use crate::{IntoPortable, MetaType, PortableRegistry, PortableRegistryBuilder, Registry, Type, TypeDef, TypeDefPrimitive, TypeDefTuple, TypeParameter};
extern crate alloc;
use alloc::vec::Vec;
use core::marker::PhantomData;

fn prim_type(k: u8) -> Type<PortableForm> {
    let p = match k % 3 {
        0 => TypeDefPrimitive::Bool,
        1 => TypeDefPrimitive::U8,
        _ => TypeDefPrimitive::Str,
    };
    Type::new(crate::Path::<PortableForm>::default(), Vec::new(), TypeDef::Primitive(p), Vec::new())
}

/// COMPLETE (no inputs): a fresh builder is the empty list
#[kani::proof]
#[kani::unwind(4)]
fn builder_new_is_empty() {
    let b = PortableRegistryBuilder::new();
    assert!(b.next_type_id() == 0);
    assert!(b.get(0).is_none());
    assert!(b.finish().types.is_empty());
}

// a probe type whose into_portable records the order in which it was called
static mut CALLS: u32 = 0;
struct Probe(u8);
impl IntoPortable for Probe {
    type Output = (u8, u32);
    fn into_portable(self, _r: &mut Registry) -> (u8, u32) {
        unsafe {
            let c = CALLS;
            CALLS = c + 1;
            (self.0, c)
        }
    }
}

/// BOUNDED (<= 3 elements): map_into_portable converts every element exactly once, in order
#[kani::proof]
#[kani::unwind(6)]
fn map_into_portable_in_order() {
    let n: usize = kani::any();
    kani::assume(n <= 3);
    let mut v = Vec::new();
    let mut i = 0;
    while i < n {
        v.push(Probe(kani::any()));
        i += 1;
    }
    let tags: Vec<u8> = v.iter().map(|p| p.0).collect();
    let mut reg = Registry::new();
    unsafe { CALLS = 0 };
    let out = reg.map_into_portable(v);
    assert!(out.len() == n, "one output per element");
    let mut j = 0;
    while j < n {
        assert!(out[j].0 == tags[j] && out[j].1 == j as u32, "element j converted j-th, result at position j");
        j += 1;
    }
    assert!(unsafe { CALLS } == n as u32, "each element converted exactly once");
}

/// COMPLETE for this pool (no symbolic input besides the selector): MetaType::new stores the identity,
/// type_info calls the type's own type_info
#[kani::proof]
#[kani::unwind(4)]
fn metatype_new_identity() {
    assert!(MetaType::new::<alloc::boxed::Box<u8>>() == MetaType::new::<u8>());
    assert!(MetaType::new::<alloc::vec::Vec<u8>>() == MetaType::new::<[u8]>());
    assert!(MetaType::new::<PhantomData<u8>>() == MetaType::new::<PhantomData<bool>>());
    assert!(MetaType::new::<u8>() != MetaType::new::<bool>());
    assert!(MetaType::new::<u8>().type_id() == TypeId::of::<u8>());
    assert!(MetaType::new::<PhantomData<u8>>().is_phantom() && !MetaType::new::<u8>().is_phantom());
}
