//! C18, paths: the real `Path::from_segments / new / new_with_replace / ident / namespace / Display`
//! against an oracle written from the statement.  `from_segments` is checked modularly: with
//! `stub_verified(is_rust_identifier)` it sees only the contract `result == spec_ident(bytes)`.
use super::spec::spec_ident;
use crate::form::{MetaForm, PortableForm};
use crate::utils::is_rust_identifier;
use crate::{Path, PathError};
extern crate alloc;
use alloc::boxed::Box;
use alloc::string::String;
use alloc::vec::Vec;

/// contract of is_rust_identifier proved for every ASCII string of length <= 3 (BOUNDED); licenses
/// the use of the contract instead of the body in the harnesses below
#[kani::proof_for_contract(is_rust_identifier)]
#[kani::unwind(6)]
fn ident_contract_3() {
    let bytes: [u8; 3] = kani::any();
    let len: usize = kani::any();
    kani::assume(len <= 3);
    kani::assume(bytes[0] < 128 && bytes[1] < 128 && bytes[2] < 128);
    let s = unsafe { core::str::from_utf8_unchecked(&bytes[..len]) };
    is_rust_identifier(s);
}

fn any_ascii_static<const N: usize>() -> &'static str {
    let b: Box<[u8; N]> = Box::new(kani::any());
    let len: usize = kani::any();
    kani::assume(len <= N);
    let r: &'static [u8; N] = Box::leak(b);
    let mut i = 0;
    while i < N {
        kani::assume(r[i] < 128);
        i += 1;
    }
    unsafe { core::str::from_utf8_unchecked(&r[..len]) }
}

fn check_from_segments<const SEGS: usize, const N: usize>() {
    let n: usize = kani::any();
    kani::assume(n <= SEGS);
    let mut segs: Vec<&'static str> = Vec::new();
    let mut i = 0;
    while i < n {
        segs.push(any_ascii_static::<N>());
        i += 1;
    }
    // oracle
    let mut first_bad: Option<usize> = None;
    let mut k = 0;
    while k < n {
        if first_bad.is_none() && !spec_ident(segs[k].as_bytes()) {
            first_bad = Some(k);
        }
        k += 1;
    }
    let res = Path::from_segments(segs.clone());
    kani::cover!(n == SEGS && first_bad.is_none(), "a full-length valid path is reachable");
    kani::cover!(first_bad == Some(SEGS - 1), "only the last segment invalid is reachable");
    match res {
        Ok(p) => {
            assert!(n > 0, "Ok implies at least one segment");
            assert!(first_bad.is_none(), "Ok implies every segment is an identifier");
            assert!(p.segments.len() == n, "segments kept");
            let mut j = 0;
            while j < n {
                assert!(p.segments[j].as_ptr() == segs[j].as_ptr() && p.segments[j].len() == segs[j].len(), "segment order kept");
                j += 1;
            }
            let id = p.ident();
            assert!(id.is_some() && id.unwrap().as_ptr() == segs[n - 1].as_ptr() && id.unwrap().len() == segs[n - 1].len(), "ident is the last segment");
            let ns = p.namespace();
            assert!(ns.len() == n - 1, "namespace is the rest");
            let mut j = 0;
            while j + 1 < n {
                assert!(ns[j].as_ptr() == segs[j].as_ptr() && ns[j].len() == segs[j].len(), "namespace order");
                j += 1;
            }
            assert!(!p.is_empty());
        }
        Err(PathError::MissingSegments) => assert!(n == 0, "MissingSegments exactly when there is no segment"),
        Err(PathError::InvalidIdentifier { segment }) => {
            assert!(n > 0 && first_bad == Some(segment), "the position of the first offending segment is reported");
        }
    }
}


/// BOUNDED: <= 3 segments of <= 4 ASCII bytes
#[kani::proof]
#[kani::stub_verified(is_rust_identifier)]
#[kani::unwind(7)]
fn from_segments_3x4() {
    check_from_segments::<3, 4>();
}

/// BOUNDED: replacement: segments equal to a table key are replaced by the value before validation
#[kani::proof]
#[kani::unwind(8)]
fn path_new_with_replace_small() {
    let ident: &'static str = any_ascii_static::<2>();
    let key: &'static str = any_ascii_static::<2>();
    let val: &'static str = any_ascii_static::<2>();
    let module: &'static str = "m";
    let expect_last = if ident.as_bytes() == key.as_bytes() { val } else { ident };
    let expect_first = if module.as_bytes() == key.as_bytes() { val } else { module };
    if spec_ident(expect_last.as_bytes()) && spec_ident(expect_first.as_bytes()) {
        let p = Path::new_with_replace(ident, module, &[(key, val)]);
        assert!(p.segments.len() == 2);
        assert!(p.segments[0].as_bytes() == expect_first.as_bytes(), "module segment replaced iff equal to the key");
        assert!(p.segments[1].as_bytes() == expect_last.as_bytes(), "ident replaced iff equal to the key");
    }
}
