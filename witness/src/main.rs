//! Executable contracts for the claimed properties, run natively against the REAL crate over an
//! exhaustively enumerated small scope.  Roles (see DESIGN §2.3):
//!  * replay: attach a concrete failing input to a violation the deductive verifier reports;
//!  * bounded stand-in (labelled bounded, never counted as proved) for functions the verifiers
//!    cannot take - including the case where a change moves a function out of their reach.
//! usage: verif-witness <Cxx> [max]     prints `OK cases=<n> nontrivial=<m>` or `VIOLATION <what> :: <input>`
#![allow(clippy::all)]
use scale::{Decode, Encode};
use scale_info::build::{Fields, Variants};
use scale_info::form::{MetaForm, PortableForm};
use scale_info::interner::UntrackedSymbol;
use scale_info::{
    meta_type, Field, IntoPortable, MetaType, Path, PortableRegistry, PortableRegistryBuilder, PortableType, Registry, Type, TypeDef,
    TypeDefArray, TypeDefBitSequence, TypeDefCompact, TypeDefComposite, TypeDefPrimitive, TypeDefSequence, TypeDefTuple, TypeDefVariant,
    TypeInfo, TypeParameter, Variant,
};
use std::any::TypeId;
use std::collections::{BTreeMap, BTreeSet};
use std::marker::PhantomData;

// a counting allocator: while armed it records the largest single allocation request (C14: memory proportional to the input)
struct Counting;
static ARMED: std::sync::atomic::AtomicBool = std::sync::atomic::AtomicBool::new(false);
static MAXREQ: std::sync::atomic::AtomicUsize = std::sync::atomic::AtomicUsize::new(0);
unsafe impl std::alloc::GlobalAlloc for Counting {
    unsafe fn alloc(&self, l: std::alloc::Layout) -> *mut u8 {
        if ARMED.load(std::sync::atomic::Ordering::Relaxed) {
            MAXREQ.fetch_max(l.size(), std::sync::atomic::Ordering::Relaxed);
        }
        std::alloc::System.alloc(l)
    }
    unsafe fn dealloc(&self, p: *mut u8, l: std::alloc::Layout) {
        std::alloc::System.dealloc(p, l)
    }
    unsafe fn realloc(&self, p: *mut u8, l: std::alloc::Layout, n: usize) -> *mut u8 {
        if ARMED.load(std::sync::atomic::Ordering::Relaxed) {
            MAXREQ.fetch_max(n, std::sync::atomic::Ordering::Relaxed);
        }
        std::alloc::System.realloc(p, l, n)
    }
}
#[global_allocator]
static ALLOC: Counting = Counting;
/// run f and return its result together with the largest single allocation it requested
fn max_request<R>(f: impl FnOnce() -> R) -> (R, usize) {
    MAXREQ.store(0, std::sync::atomic::Ordering::Relaxed);
    ARMED.store(true, std::sync::atomic::Ordering::Relaxed);
    let r = f();
    ARMED.store(false, std::sync::atomic::Ordering::Relaxed);
    (r, MAXREQ.load(std::sync::atomic::Ordering::Relaxed))
}

type PT = Type<PortableForm>;
type Sym = UntrackedSymbol<TypeId>;
fn sym(i: u32) -> Sym {
    i.into()
}

struct Stats {
    cases: u64,
    nontrivial: u64,
}
type Res = Result<(), String>;
macro_rules! ensure {
    ($c:expr, $($arg:tt)*) => { if !($c) { return Err(format!($($arg)*)); } };
}

// ------------------------------------------------------------------------------------------------
// portable types: references, renaming, generators

fn refs(t: &PT) -> Vec<u32> {
    let mut v = Vec::new();
    for p in &t.type_params {
        if let Some(s) = &p.ty {
            v.push(s.id);
        }
    }
    match &t.type_def {
        TypeDef::Composite(c) => c.fields.iter().for_each(|f| v.push(f.ty.id)),
        TypeDef::Variant(va) => va.variants.iter().for_each(|x| x.fields.iter().for_each(|f| v.push(f.ty.id))),
        TypeDef::Sequence(s) => v.push(s.type_param.id),
        TypeDef::Array(a) => v.push(a.type_param.id),
        TypeDef::Tuple(t) => t.fields.iter().for_each(|s| v.push(s.id)),
        TypeDef::Primitive(_) => {}
        TypeDef::Compact(c) => v.push(c.type_param.id),
        TypeDef::BitSequence(b) => {
            v.push(b.bit_store_type.id);
            v.push(b.bit_order_type.id)
        }
    }
    v
}

/// the type with every referenced id replaced through m and nothing else changed (None: an id is not in m)
fn rename(t: &PT, m: &BTreeMap<u32, u32>) -> Option<PT> {
    let r = |s: &Sym| m.get(&s.id).map(|n| sym(*n));
    let rf = |f: &Field<PortableForm>| -> Option<Field<PortableForm>> {
        Some(Field { name: f.name.clone(), ty: r(&f.ty)?, type_name: f.type_name.clone(), docs: f.docs.clone() })
    };
    let mut params = Vec::new();
    for p in &t.type_params {
        params.push(TypeParameter::<PortableForm> { name: p.name.clone(), ty: match &p.ty { None => None, Some(s) => Some(r(s)?) } });
    }
    let def = match &t.type_def {
        TypeDef::Composite(c) => TypeDef::Composite(TypeDefComposite { fields: c.fields.iter().map(rf).collect::<Option<Vec<_>>>()? }),
        TypeDef::Variant(v) => {
            let mut vs = Vec::new();
            for x in &v.variants {
                vs.push(Variant { name: x.name.clone(), fields: x.fields.iter().map(rf).collect::<Option<Vec<_>>>()?, index: x.index, docs: x.docs.clone() });
            }
            TypeDef::Variant(TypeDefVariant { variants: vs })
        }
        TypeDef::Sequence(s) => TypeDef::Sequence(TypeDefSequence { type_param: r(&s.type_param)? }),
        TypeDef::Array(a) => TypeDef::Array(TypeDefArray { len: a.len, type_param: r(&a.type_param)? }),
        TypeDef::Tuple(tu) => TypeDef::Tuple(TypeDefTuple { fields: tu.fields.iter().map(r).collect::<Option<Vec<_>>>()? }),
        TypeDef::Primitive(p) => TypeDef::Primitive(p.clone()),
        TypeDef::Compact(c) => TypeDef::Compact(TypeDefCompact { type_param: r(&c.type_param)? }),
        TypeDef::BitSequence(b) => TypeDef::BitSequence(TypeDefBitSequence::new_portable(r(&b.bit_store_type)?, r(&b.bit_order_type)?)),
    };
    Some(Type { path: t.path.clone(), type_params: params, type_def: def, docs: t.docs.clone() })
}

fn pfield(name: Option<&str>, id: u32, tn: Option<&str>, docs: &[&str]) -> Field<PortableForm> {
    Field { name: name.map(String::from), ty: sym(id), type_name: tn.map(String::from), docs: docs.iter().map(|s| s.to_string()).collect() }
}
fn ptype(path: &[&str], params: Vec<(&str, Option<u32>)>, def: TypeDef<PortableForm>, docs: &[&str]) -> PT {
    Type {
        path: Path::from_segments_unchecked(path.iter().map(|s| s.to_string())),
        type_params: params.into_iter().map(|(n, t)| TypeParameter::<PortableForm> { name: n.to_string(), ty: t.map(sym) }).collect(),
        type_def: def,
        docs: docs.iter().map(|s| s.to_string()).collect(),
    }
}

/// all entry shapes over ids < n (every definition kind; parameters present, absent and mixed in both orders)
fn shapes(n: u32) -> Vec<PT> {
    let mut v = vec![ptype(&[], vec![], TypeDef::Primitive(TypeDefPrimitive::U8), &[])];
    for a in 0..n {
        v.push(ptype(&["m", "S"], vec![], TypeDef::Composite(TypeDefComposite { fields: vec![pfield(Some("f"), a, Some("T"), &["d"])] }), &["doc"]));
        v.push(ptype(&[], vec![], TypeDef::Sequence(TypeDefSequence { type_param: sym(a) }), &[]));
        v.push(ptype(&[], vec![], TypeDef::Compact(TypeDefCompact { type_param: sym(a) }), &[]));
        v.push(ptype(&["P"], vec![("T", Some(a))], TypeDef::Composite(TypeDefComposite { fields: vec![] }), &[]));
        // empty strings in every optional / list position: Some("") is not None, [""] is not []
        v.push(ptype(&[""], vec![("", Some(a))], TypeDef::Composite(TypeDefComposite { fields: vec![pfield(Some(""), a, Some(""), &[""]), pfield(None, a, None, &[])] }), &[""]));
        v.push(ptype(&["V"], vec![], TypeDef::Variant(TypeDefVariant { variants: vec![Variant { name: "".into(), fields: vec![pfield(Some("x"), a, Some(""), &[])], index: 0, docs: vec!["".into()] }] }), &[]));
        for b in 0..n {
            v.push(ptype(&[], vec![], TypeDef::Array(TypeDefArray { len: 7 + b, type_param: sym(a) }), &[]));
            v.push(ptype(&[], vec![], TypeDef::Tuple(TypeDefTuple { fields: vec![sym(a), sym(b)] }), &[]));
            v.push(ptype(&[], vec![], TypeDef::BitSequence(TypeDefBitSequence::new_portable(sym(a), sym(b))), &[]));
            v.push(ptype(
                &["E"],
                vec![],
                TypeDef::Variant(TypeDefVariant {
                    variants: vec![
                        Variant { name: "A".into(), fields: vec![pfield(None, a, None, &[])], index: 3, docs: vec!["v".into()] },
                        Variant { name: "B".into(), fields: vec![pfield(Some("x"), b, None, &[])], index: 0, docs: vec![] },
                    ],
                }),
                &[],
            ));
            // two members with different ids next to each other in ONE composite / ONE variant (a per-loop cache or a lost update between
            // neighbouring fields needs a pair whose ids are related through the renaming)
            v.push(ptype(&["Pair"], vec![], TypeDef::Composite(TypeDefComposite { fields: vec![pfield(Some("a"), a, None, &[]), pfield(Some("b"), b, None, &[])] }), &[]));
            v.push(ptype(&["One"], vec![], TypeDef::Variant(TypeDefVariant { variants: vec![Variant { name: "V".into(), fields: vec![pfield(None, a, None, &[]), pfield(None, b, None, &[])], index: 1, docs: vec![] }] }), &[]));
            // a skipped (None) parameter before / after a concrete one, and a parameter-only reference
            v.push(ptype(&["Q"], vec![("T", None), ("U", Some(a))], TypeDef::Composite(TypeDefComposite { fields: vec![pfield(None, b, None, &[])] }), &[]));
            v.push(ptype(&["Q"], vec![("T", Some(a)), ("U", None)], TypeDef::Composite(TypeDefComposite { fields: vec![pfield(None, b, None, &[])] }), &[]));
        }
    }
    v
}

fn wf(reg: &PortableRegistry) -> Res {
    for (i, t) in reg.types.iter().enumerate() {
        ensure!(t.id as usize == i, "entry at position {} carries id {}", i, t.id);
        for r in refs(&t.ty) {
            ensure!((r as usize) < reg.types.len(), "entry {} mentions id {} which does not resolve (len {})", i, r, reg.types.len());
        }
        ensure!(reg.resolve(i as u32) == Some(&t.ty), "resolve({}) does not return the entry labelled {}", i, i);
    }
    Ok(())
}

// ------------------------------------------------------------------------------------------------
// C10 (and the retain clause of C01)
fn check_retain(orig: &PortableRegistry, keep: &[bool]) -> Res {
    let n = orig.types.len();
    let mut reg = orig.clone();
    let mut asked = Vec::new();
    let map = reg.retain(|id| {
        asked.push(id);
        keep[id as usize]
    });
    ensure!(asked == (0..n as u32).collect::<Vec<_>>(), "filter asked about {:?}, expected every id once in order", asked);
    // exactly the reachable ids
    let mut reach: BTreeSet<u32> = BTreeSet::new();
    let mut stack: Vec<u32> = (0..n as u32).filter(|i| keep[*i as usize]).collect();
    while let Some(u) = stack.pop() {
        if reach.insert(u) {
            stack.extend(refs(&orig.types[u as usize].ty));
        }
    }
    let keys: BTreeSet<u32> = map.keys().cloned().collect();
    ensure!(keys == reach, "map keys {:?} but reachable from accepted ids: {:?}", keys, reach);
    // bijection onto the new ids
    let vals: BTreeSet<u32> = map.values().cloned().collect();
    ensure!(vals.len() == map.len() && vals == (0..reg.types.len() as u32).collect(), "map values {:?} are not a bijection onto 0..{}", map.values().collect::<Vec<_>>(), reg.types.len());
    // every retained entry = original renamed through the map
    for (u, nu) in &map {
        let got = &reg.types[*nu as usize];
        ensure!(got.id == *nu, "retained copy of old id {} sits at {} but carries id {}", u, nu, got.id);
        let want = rename(&orig.types[*u as usize].ty, &map);
        ensure!(want.as_ref() == Some(&got.ty), "retained copy of old id {} is {:?}, expected the original renamed through the map: {:?}", u, got.ty, want);
    }
    wf(&reg)
}

fn c10(st: &mut Stats, max: u32) -> Res {
    for n in 1..=max {
        let sh = shapes(n);
        let mut idx = vec![0usize; n as usize];
        loop {
            let reg = PortableRegistry { types: idx.iter().enumerate().map(|(i, k)| PortableType { id: i as u32, ty: sh[*k].clone() }).collect() };
            for mask in 0..(1u32 << n) {
                let keep: Vec<bool> = (0..n).map(|i| mask & (1 << i) != 0).collect();
                st.cases += 1;
                if mask != 0 && mask != (1 << n) - 1 {
                    st.nontrivial += 1;
                }
                check_retain(&reg, &keep).map_err(|e| format!("{} :: retain(keep={:?}) on registry {:?}", e, keep, reg.types.iter().map(|t| &t.ty).collect::<Vec<_>>()))?;
            }
            // next combination
            let mut k = 0;
            loop {
                if k == idx.len() {
                    break;
                }
                idx[k] += 1;
                if idx[k] < sh.len() {
                    break;
                }
                idx[k] = 0;
                k += 1;
            }
            if k == idx.len() {
                break;
            }
        }
    }
    Ok(())
}

// ------------------------------------------------------------------------------------------------
// C12: builder vs duplicate-free list
fn c12(st: &mut Stats, max: u32) -> Res {
    // values that differ from a base value in exactly one leaf (docs, names, index, ids, lengths ...): an
    // equality / ordering that ignores any component would merge two of them
    let var = |name: &str, idx: u8, fdoc: &str, vdoc: &str, fid: u32| ptype(&["E"], vec![("T", Some(1))], TypeDef::Variant(TypeDefVariant { variants: vec![Variant { name: name.into(), fields: vec![pfield(Some("f"), fid, Some("tn"), &[fdoc])], index: idx, docs: vec![vdoc.into()] }] }), &["td"]);
    let vals: Vec<PT> = vec![
        var("A", 1, "fd", "vd", 0),
        var("A", 1, "fd", "vd2", 0),
        var("A", 1, "fd2", "vd", 0),
        var("A", 2, "fd", "vd", 0),
        var("B", 1, "fd", "vd", 0),
        var("A", 1, "fd", "vd", 3),
        ptype(&["E"], vec![("T", None)], TypeDef::Variant(TypeDefVariant { variants: vec![] }), &["td"]),
        ptype(&["E"], vec![("T", None)], TypeDef::Variant(TypeDefVariant { variants: vec![] }), &["td", ""]),
        ptype(&[], vec![], TypeDef::Array(TypeDefArray { len: 1, type_param: sym(0) }), &[]),
        ptype(&[], vec![], TypeDef::Array(TypeDefArray { len: 2, type_param: sym(0) }), &[]),
        // values that differ only in the ORDER of a list (variants not in index order, fields, tuple members, parameters, docs):
        // a table that normalises what it stores (sorting, deduplicating) merges or alters them
        ptype(&["O"], vec![], TypeDef::Variant(TypeDefVariant { variants: vec![Variant { name: "A".into(), fields: vec![], index: 0, docs: vec![] }, Variant { name: "B".into(), fields: vec![], index: 1, docs: vec![] }] }), &[]),
        ptype(&["O"], vec![], TypeDef::Variant(TypeDefVariant { variants: vec![Variant { name: "B".into(), fields: vec![], index: 1, docs: vec![] }, Variant { name: "A".into(), fields: vec![], index: 0, docs: vec![] }] }), &[]),
        ptype(&["O"], vec![], TypeDef::Composite(TypeDefComposite { fields: vec![pfield(Some("f"), 1, None, &[]), pfield(Some("e"), 0, None, &[])] }), &[]),
        ptype(&["O"], vec![], TypeDef::Composite(TypeDefComposite { fields: vec![pfield(Some("e"), 0, None, &[]), pfield(Some("f"), 1, None, &[])] }), &[]),
        ptype(&[], vec![], TypeDef::Tuple(TypeDefTuple { fields: vec![sym(1), sym(0), sym(1)] }), &[]),
        ptype(&[], vec![], TypeDef::Tuple(TypeDefTuple { fields: vec![sym(0), sym(1), sym(1)] }), &[]),
        ptype(&["O"], vec![("U", Some(1)), ("T", None)], TypeDef::Tuple(TypeDefTuple { fields: vec![] }), &["b", "a"]),
        ptype(&["O"], vec![("T", None), ("U", Some(1))], TypeDef::Tuple(TypeDefTuple { fields: vec![] }), &["a", "b"]),
        // values that share their whole DEFINITION and differ only outside it (path, docs): a table keyed by part of the value merges them
        ptype(&[], vec![], TypeDef::Primitive(TypeDefPrimitive::U8), &[]),
        ptype(&["my_crate", "Byte"], vec![], TypeDef::Primitive(TypeDefPrimitive::U8), &[]),
        ptype(&[], vec![], TypeDef::Primitive(TypeDefPrimitive::U8), &["a byte"]),
    ];
    let nv = vals.len();
    // ops: 0..nv register value k, nv next_type_id, nv+1.. get(i)
    let nops = nv + 1 + 3;
    let len = max.min(3) as usize + 1;
    let mut script = vec![0usize; len];
    loop {
        st.cases += 1;
        let mut b = PortableRegistryBuilder::new();
        let mut model: Vec<PT> = Vec::new();
        let mut dup = false;
        for op in &script {
            match *op {
                k if k < nv => {
                    let announced = b.next_type_id();
                    let id = b.register_type(vals[k].clone());
                    let want = match model.iter().position(|x| *x == vals[k]) {
                        Some(p) => {
                            dup = true;
                            p
                        }
                        None => {
                            model.push(vals[k].clone());
                            ensure!(announced as usize == model.len() - 1, "next_type_id announced {} but the new value went to {} :: script {:?}", announced, model.len() - 1, script);
                            model.len() - 1
                        }
                    };
                    ensure!(id as usize == want, "register_type returned {} expected {} :: script {:?}", id, want, script);
                }
                k if k == nv => ensure!(b.next_type_id() as usize == model.len(), "next_type_id {} != {} :: script {:?}", b.next_type_id(), model.len(), script),
                g => {
                    let i = (g - nv - 1) as u32;
                    ensure!(b.get(i) == model.get(i as usize), "get({}) disagrees with the list :: script {:?}", i, script);
                }
            }
        }
        if dup {
            st.nontrivial += 1;
        }
        let reg = b.finish();
        ensure!(reg.types.len() == model.len(), "finish lists {} values, expected {} :: script {:?}", reg.types.len(), model.len(), script);
        for (i, t) in reg.types.iter().enumerate() {
            ensure!(t.id as usize == i && t.ty == model[i], "finish: entry {} is {:?} :: script {:?}", i, t, script);
        }
        let mut k = 0;
        loop {
            if k == script.len() {
                return Ok(());
            }
            script[k] += 1;
            if script[k] < nops {
                break;
            }
            script[k] = 0;
            k += 1;
        }
    }
}

// ------------------------------------------------------------------------------------------------
// C14 (resolve clause)
fn c14(st: &mut Stats, _max: u32) -> Res {
    for n in 0..=3u32 {
        // ill-formed on purpose: ids unrelated to positions, dangling references
        let reg = PortableRegistry { types: (0..n).map(|i| PortableType { id: 100 - i, ty: ptype(&[], vec![], TypeDef::Sequence(TypeDefSequence { type_param: sym(77 + i) }), &[]) }).collect() };
        for id in (0..n + 3).chain([u32::MAX, u32::MAX - 1, 1 << 31]) {
            st.cases += 1;
            if id >= n {
                st.nontrivial += 1;
            }
            let want = reg.types.get(id as usize).map(|t| &t.ty);
            ensure!(reg.resolve(id) == want, "resolve({}) on a registry of {} entries", id, n);
        }
    }
    Ok(())
}

// ------------------------------------------------------------------------------------------------
// a pool of hand-written TypeInfo impls: recursion, mutual recursion, aliases, phantom, skipped parameter
static mut EVALS: [u32; 8] = [0; 8];
fn evals(i: usize) -> u32 {
    unsafe { EVALS[i] }
}
fn bump(i: usize) {
    unsafe { EVALS[i] += 1 }
}
struct RecA;
struct RecB;
struct Selfy;
struct Gen<T>(PhantomData<T>);
struct Skip;
/// definitions that mention the COUNTING types (RecA, RecB, Selfy) in compact, bit-sequence and array position: an extra evaluation of a
/// definition anywhere on those conversion paths shows up in the evaluation counters
struct CompactRec;
struct BitsRec;
impl TypeInfo for CompactRec {
    type Identity = Self;
    fn type_info() -> Type {
        Type::new(Path::new("CompactRec", "pool"), vec![], TypeDefCompact::new(meta_type::<RecA>()), vec![])
    }
}
impl TypeInfo for BitsRec {
    type Identity = Self;
    fn type_info() -> Type {
        Type::new(Path::new("BitsRec", "pool"), vec![], TypeDef::BitSequence(TypeDefBitSequence { bit_store_type: meta_type::<Selfy>(), bit_order_type: meta_type::<RecB>() }), vec![])
    }
}
impl TypeInfo for RecA {
    type Identity = Self;
    fn type_info() -> Type {
        bump(0);
        Type::builder().path(Path::new("RecA", "pool")).docs_always(&["A doc"]).composite(
            Fields::named().field(|f| f.ty::<Box<RecB>>().name("b").type_name("Box<RecB>")).field(|f| f.ty::<PhantomData<u64>>().name("ph")).field(|f| f.ty::<u8>().name("n").docs_always(&["n doc"])),
        )
    }
}
impl TypeInfo for RecB {
    type Identity = Self;
    fn type_info() -> Type {
        bump(1);
        Type::builder().path(Path::new("RecB", "pool")).variant(
            Variants::new().variant("Leaf", |v| v.index(4).docs_always(&["leaf"])).variant("Node", |v| v.index(1).fields(Fields::unnamed().field(|f| f.ty::<Vec<RecA>>()).field(|f| f.ty::<&'static RecB>()))),
        )
    }
}
impl TypeInfo for Selfy {
    type Identity = Self;
    fn type_info() -> Type {
        bump(2);
        Type::builder().path(Path::new("Selfy", "pool")).composite(Fields::unnamed().field(|f| f.ty::<Option<Box<Selfy>>>()).field(|f| f.ty::<[Selfy; 2]>()))
    }
}
impl<T: TypeInfo + 'static> TypeInfo for Gen<T> {
    type Identity = Self;
    fn type_info() -> Type {
        Type::builder().path(Path::new("Gen", "pool")).type_params(vec![TypeParameter::new("T", Some(meta_type::<T>()))]).composite(Fields::unit())
    }
}
impl TypeInfo for Skip {
    type Identity = Self;
    fn type_info() -> Type {
        bump(3);
        Type::builder()
            .path(Path::new("Skip", "pool"))
            .type_params(vec![TypeParameter::new("T", None), TypeParameter::new("U", Some(meta_type::<(u8, bool)>()))])
            .composite(Fields::named().field(|f| f.compact::<u32>().name("c").type_name("u32")))
    }
}

// distinct identities with EQUAL portable definitions on consecutive ids ([u8] and [Box<u8>] are both "sequence of u8";
// Option<u8> / Option<Box<u8>>; [u8; 2] / [&u8; 2]): a registry that merges entries by definition breaks on these
struct Blob;
impl TypeInfo for Blob {
    type Identity = Self;
    fn type_info() -> Type {
        Type::builder().path(Path::new("Blob", "pool")).composite(
            Fields::named()
                .field(|f| f.ty::<u8>().name("tag"))
                .field(|f| f.ty::<Vec<u8>>().name("raw"))
                .field(|f| f.ty::<Vec<Box<u8>>>().name("boxed"))
                .field(|f| f.ty::<Option<u8>>().name("o1"))
                .field(|f| f.ty::<Option<Box<u8>>>().name("o2"))
                .field(|f| f.ty::<[u8; 2]>().name("a1"))
                .field(|f| f.ty::<[&'static u8; 2]>().name("a2"))
                .field(|f| f.ty::<bool>().name("last")),
        )
    }
}

fn pool() -> Vec<(&'static str, MetaType)> {
    vec![
        ("Blob", meta_type::<Blob>()),
        ("CompactRec", meta_type::<CompactRec>()),
        ("BitsRec", meta_type::<BitsRec>()),
        ("[Selfy;2]", meta_type::<[Selfy; 2]>()),
        ("(u8,u8,bool,u8)", meta_type::<(u8, u8, bool, u8)>()),
        ("u8", meta_type::<u8>()),
        ("Vec<u8>", meta_type::<Vec<u8>>()),
        ("[u8]", meta_type::<[u8]>()),
        ("Box<Vec<u8>>", meta_type::<Box<Vec<u8>>>()),
        ("&mut String", meta_type::<&'static mut String>()),
        ("str", meta_type::<str>()),
        ("RecA", meta_type::<RecA>()),
        ("RecB", meta_type::<RecB>()),
        ("Selfy", meta_type::<Selfy>()),
        ("Gen<Rc<str>>", meta_type::<Gen<std::rc::Rc<str>>>()),
        ("Gen<u8>", meta_type::<Gen<u8>>()),
        ("Skip", meta_type::<Skip>()),
        ("PhantomData<u8>", meta_type::<PhantomData<u8>>()),
        ("PhantomData<bool>", meta_type::<PhantomData<bool>>()),
        ("Result<u8,Arc<RecA>>", meta_type::<Result<u8, std::sync::Arc<RecA>>>()),
        ("(u8,Vec<u8>)", meta_type::<(u8, Vec<u8>)>()),
        ("BitVec", meta_type::<bitvec::vec::BitVec<u8, bitvec::order::Lsb0>>()),
        ("Range<u8>", meta_type::<std::ops::Range<u8>>()),
        ("RangeInclusive<u8>", meta_type::<std::ops::RangeInclusive<u8>>()),
        ("Cow<str>", meta_type::<std::borrow::Cow<'static, str>>()),
        ("BTreeSet<u8>", meta_type::<std::collections::BTreeSet<u8>>()),
        ("BinaryHeap<u8>", meta_type::<std::collections::BinaryHeap<u8>>()),
    ]
}

/// the portable definition at `id` is the faithful image of `m`'s own type_info(): every non-reference
/// component equal, every reference an id that (recursively) is the image of the referenced type
struct Img<'a> {
    reg: &'a PortableRegistry,
    seen: BTreeMap<MetaType, u32>,
    by_id: BTreeMap<u32, MetaType>,
}
impl<'a> Img<'a> {
    fn strs(a: &[&'static str], b: &[String]) -> bool {
        a.len() == b.len() && a.iter().zip(b).all(|(x, y)| *x == y.as_str())
    }
    fn reference(&mut self, m: &MetaType, id: u32, what: &str) -> Res {
        if let Some(prev) = self.seen.get(m) {
            ensure!(*prev == id, "{}: the same type identity is referenced through two ids {} and {}", what, prev, id);
            // the statement is about the type's OWN type_info(): a type that shares an identity (hence an id) with another one
            // must return the same definition (C02 / C16 coherence) - compare with the first type met under this identity
            if let Some(first) = self.by_id.get(&id) {
                ensure!(first.type_info() == m.type_info(), "{}: id {} resolves to the definition of the type first met under this identity, but another type sharing the identity describes itself as {:?}", what, id, m.type_info().path.segments);
            }
            return Ok(());
        }
        if let Some(other) = self.by_id.get(&id) {
            ensure!(other == m, "{}: id {} stands for two different type identities", what, id);
        }
        self.seen.insert(*m, id);
        self.by_id.insert(id, *m);
        let t = m.type_info();
        let p = self.reg.resolve(id).ok_or(format!("{}: id {} does not resolve", what, id))?.clone();
        ensure!(Self::strs(&t.path.segments, &p.path.segments), "{}: path {:?} became {:?}", what, t.path.segments, p.path.segments);
        ensure!(Self::strs(&t.docs, &p.docs), "{}: docs {:?} became {:?}", what, t.docs, p.docs);
        ensure!(t.type_params.len() == p.type_params.len(), "{}: {} type parameters became {}", what, t.type_params.len(), p.type_params.len());
        for (a, b) in t.type_params.iter().zip(&p.type_params) {
            ensure!(a.name == b.name.as_str(), "{}: parameter name {:?} became {:?}", what, a.name, b.name);
            match (&a.ty, &b.ty) {
                (None, None) => {}
                (Some(x), Some(y)) => self.reference(x, y.id, what)?,
                _ => return Err(format!("{}: parameter {} type presence changed", what, a.name)),
            }
        }
        let fields = |s: &mut Self, a: &[Field<MetaForm>], b: &[Field<PortableForm>]| -> Res {
            ensure!(a.len() == b.len(), "{}: {} fields became {}", what, a.len(), b.len());
            for (x, y) in a.iter().zip(b) {
                ensure!(x.name.map(String::from) == y.name && x.type_name.map(String::from) == y.type_name && Self::strs(&x.docs, &y.docs), "{}: field {:?}/{:?}/{:?} became {:?}/{:?}/{:?}", what, x.name, x.type_name, x.docs, y.name, y.type_name, y.docs);
                s.reference(&x.ty, y.ty.id, what)?;
            }
            Ok(())
        };
        match (&t.type_def, &p.type_def) {
            (TypeDef::Composite(a), TypeDef::Composite(b)) => fields(self, &a.fields, &b.fields)?,
            (TypeDef::Variant(a), TypeDef::Variant(b)) => {
                ensure!(a.variants.len() == b.variants.len(), "{}: variant count changed", what);
                for (x, y) in a.variants.iter().zip(&b.variants) {
                    ensure!(x.name == y.name.as_str() && x.index == y.index && Self::strs(&x.docs, &y.docs), "{}: variant {}#{} {:?} became {}#{} {:?}", what, x.name, x.index, x.docs, y.name, y.index, y.docs);
                    fields(self, &x.fields, &y.fields)?;
                }
            }
            (TypeDef::Sequence(a), TypeDef::Sequence(b)) => self.reference(&a.type_param, b.type_param.id, what)?,
            (TypeDef::Array(a), TypeDef::Array(b)) => {
                ensure!(a.len == b.len, "{}: array length {} became {}", what, a.len, b.len);
                self.reference(&a.type_param, b.type_param.id, what)?
            }
            (TypeDef::Tuple(a), TypeDef::Tuple(b)) => {
                ensure!(a.fields.len() == b.fields.len(), "{}: tuple arity changed", what);
                for (x, y) in a.fields.iter().zip(&b.fields) {
                    self.reference(x, y.id, what)?;
                }
            }
            (TypeDef::Primitive(a), TypeDef::Primitive(b)) => ensure!(a == b, "{}: primitive changed", what),
            (TypeDef::Compact(a), TypeDef::Compact(b)) => self.reference(&a.type_param, b.type_param.id, what)?,
            (TypeDef::BitSequence(a), TypeDef::BitSequence(b)) => {
                self.reference(&a.bit_store_type, b.bit_store_type.id, what)?;
                self.reference(&a.bit_order_type, b.bit_order_type.id, what)?
            }
            _ => return Err(format!("{}: definition kind changed: {:?} vs {:?}", what, t.type_def, p.type_def)),
        }
        Ok(())
    }
}

fn snapshot(r: &Registry) -> BTreeMap<u32, PT> {
    r.types().map(|(k, v)| (k.id, v.clone())).collect()
}

/// one registration history over the pool: stability after every step (C11), no re-evaluation (C05),
/// then density / closure (C01), faithful image (C02), one entry per identity and alias sharing (C05)
fn history(names: &[usize], mode: usize) -> Res {
    let pl = pool();
    let what = format!("history {:?} (mode {})", names.iter().map(|i| pl[*i].0).collect::<Vec<_>>(), mode);
    unsafe { EVALS = [0; 8] };
    let mut reg = Registry::new();
    let mut ids: Vec<(MetaType, u32)> = Vec::new();
    let mut prev = snapshot(&reg);
    for (step, i) in names.iter().enumerate() {
        let m = pl[*i].1;
        let before = snapshot(&reg);
        let id = match (mode + step) % 3 {
            0 => reg.register_type(&m).id,
            1 => {
                let v = reg.register_types(vec![m, m]);
                ensure!(v.len() == 2 && v[0] == v[1], "{}: register_types([x, x]) returned {:?}", what, v);
                v[0].id
            }
            _ => {
                let v = reg.map_into_portable(vec![TypeParameter::new("p", Some(m)), TypeParameter::new("q", None)]);
                ensure!(v.len() == 2 && v[0].name == "p" && v[1].name == "q" && v[1].ty.is_none(), "{}: map_into_portable lost order/shape: {:?}", what, v);
                v[0].ty.unwrap().id
            }
        };
        let after = snapshot(&reg);
        for (k, v) in &prev {
            ensure!(after.get(k) == Some(v), "{}: id {} handed out earlier no longer resolves to the same definition after step {}", what, k, step);
        }
        if let Some((_, old)) = ids.iter().find(|(mm, _)| *mm == m) {
            ensure!(*old == id, "{}: re-registering {} returned id {} instead of the existing {}", what, pl[*i].0, id, old);
            ensure!(before == after, "{}: re-registering {} changed the registry", what, pl[*i].0);
        }
        ids.push((m, id));
        prev = after;
    }
    for k in 0..4 {
        ensure!(evals(k) <= 1, "{}: a type's definition was evaluated {} times", what, evals(k));
    }
    let preg: PortableRegistry = reg.into();
    wf(&preg).map_err(|e| format!("{}: {}", what, e))?;
    let mut img = Img { reg: &preg, seen: BTreeMap::new(), by_id: BTreeMap::new() };
    for (m, id) in &ids {
        img.reference(m, *id, &what)?;
    }
    ensure!(img.by_id.len() == preg.types.len(), "{}: registry holds {} entries but only {} distinct type identities are reachable from what was registered", what, preg.types.len(), img.by_id.len());
    Ok(())
}

fn registry_histories(st: &mut Stats, max: u32) -> Res {
    let n = pool().len();
    let len = max.min(3) as usize;
    for l in 1..=len {
        let mut h = vec![0usize; l];
        loop {
            for mode in 0..3 {
                st.cases += 1;
                if l > 1 {
                    st.nontrivial += 1;
                }
                history(&h, mode)?;
            }
            let mut k = 0;
            loop {
                if k == l {
                    break;
                }
                h[k] += 1;
                if h[k] < n {
                    break;
                }
                h[k] = 0;
                k += 1;
            }
            if k == l {
                break;
            }
        }
    }
    Ok(())
}

/// C11 clause 3: other root orders give the same registry up to a renaming of ids
fn order_independence(st: &mut Stats) -> Res {
    let pl = pool();
    let n = pl.len();
    for a in 0..n {
        for b in 0..n {
            for c in [6usize, 8, 11] {
                st.cases += 1;
                st.nontrivial += 1;
                let build = |order: &[usize]| -> (PortableRegistry, BTreeMap<usize, u32>) {
                    let mut r = Registry::new();
                    let mut ids = BTreeMap::new();
                    for i in order {
                        ids.insert(*i, r.register_type(&pl[*i].1).id);
                    }
                    (r.into(), ids)
                };
                let (r1, i1) = build(&[a, b, c]);
                let (r2, i2) = build(&[c, b, a]);
                let what = format!("roots {:?} in two orders", [pl[a].0, pl[b].0, pl[c].0]);
                ensure!(r1.types.len() == r2.types.len(), "{}: {} vs {} entries", what, r1.types.len(), r2.types.len());
                // renaming induced by the roots, extended along references
                let mut f: BTreeMap<u32, u32> = BTreeMap::new();
                let mut stack: Vec<(u32, u32)> = [a, b, c].iter().map(|k| (i1[k], i2[k])).collect();
                while let Some((x, y)) = stack.pop() {
                    match f.get(&x) {
                        Some(z) => ensure!(*z == y, "{}: id {} corresponds to both {} and {}", what, x, z, y),
                        None => {
                            f.insert(x, y);
                            let (rx, ry) = (refs(&r1.types[x as usize].ty), refs(&r2.types[y as usize].ty));
                            ensure!(rx.len() == ry.len(), "{}: entries {} / {} mention different numbers of ids", what, x, y);
                            stack.extend(rx.into_iter().zip(ry));
                        }
                    }
                }
                for (x, y) in &f {
                    ensure!(rename(&r1.types[*x as usize].ty, &f).as_ref() == Some(&r2.types[*y as usize].ty), "{}: entry {} is not entry {} of the other registry up to renaming", what, x, y);
                }
                ensure!(f.len() == r1.types.len() && f.values().collect::<BTreeSet<_>>().len() == f.len(), "{}: renaming is not a bijection", what);
            }
        }
    }
    Ok(())
}

// ------------------------------------------------------------------------------------------------
// C16: MetaType equality / order / hash follow the declared identity
fn c16(st: &mut Stats, _max: u32) -> Res {
    use std::hash::{Hash, Hasher};
    let ids: Vec<(&str, MetaType, TypeId)> = vec![
        ("u8", meta_type::<u8>(), TypeId::of::<u8>()),
        ("Box<u8>", meta_type::<Box<u8>>(), TypeId::of::<u8>()),
        ("&Box<Rc<u8>>", meta_type::<&'static Box<std::rc::Rc<u8>>>(), TypeId::of::<u8>()),
        ("Vec<u8>", meta_type::<Vec<u8>>(), TypeId::of::<[u8]>()),
        ("VecDeque<u8>", meta_type::<std::collections::VecDeque<u8>>(), TypeId::of::<[u8]>()),
        ("Arc<Vec<u8>>", meta_type::<std::sync::Arc<Vec<u8>>>(), TypeId::of::<[u8]>()),
        ("&mut Vec<u8>", meta_type::<&'static mut Vec<u8>>(), TypeId::of::<[u8]>()),
        ("String", meta_type::<String>(), TypeId::of::<str>()),
        ("&mut String", meta_type::<&'static mut String>(), TypeId::of::<str>()),
        ("Vec<Box<u8>>", meta_type::<Vec<Box<u8>>>(), TypeId::of::<[Box<u8>]>()),
        ("PhantomData<u8>", meta_type::<PhantomData<u8>>(), TypeId::of::<PhantomData<()>>()),
        ("PhantomData<String>", meta_type::<PhantomData<String>>(), TypeId::of::<PhantomData<()>>()),
        ("Option<u8>", meta_type::<Option<u8>>(), TypeId::of::<Option<u8>>()),
        ("Option<Box<u8>>", meta_type::<Option<Box<u8>>>(), TypeId::of::<Option<Box<u8>>>()),
        ("[u8;2]", meta_type::<[u8; 2]>(), TypeId::of::<[u8; 2]>()),
        ("[u8;3]", meta_type::<[u8; 3]>(), TypeId::of::<[u8; 3]>()),
        ("Cow<str>", meta_type::<std::borrow::Cow<'static, str>>(), TypeId::of::<std::borrow::Cow<'static, str>>()),
        ("Cow<[u8]>", meta_type::<std::borrow::Cow<'static, [u8]>>(), TypeId::of::<std::borrow::Cow<'static, [u8]>>()),
        ("Range<u8>", meta_type::<std::ops::Range<u8>>(), TypeId::of::<std::ops::Range<u8>>()),
        ("RangeInclusive<u8>", meta_type::<std::ops::RangeInclusive<u8>>(), TypeId::of::<std::ops::RangeInclusive<u8>>()),
        ("Result<u8,u8>", meta_type::<Result<u8, u8>>(), TypeId::of::<Result<u8, u8>>()),
        ("BTreeSet<u8>", meta_type::<std::collections::BTreeSet<u8>>(), TypeId::of::<std::collections::BTreeSet<u8>>()),
        ("BinaryHeap<u8>", meta_type::<std::collections::BinaryHeap<u8>>(), TypeId::of::<std::collections::BinaryHeap<u8>>()),
        ("BTreeMap<u8,u8>", meta_type::<std::collections::BTreeMap<u8, u8>>(), TypeId::of::<std::collections::BTreeMap<u8, u8>>()),
        ("Compact<u8>", meta_type::<scale::Compact<u8>>(), TypeId::of::<scale::Compact<u8>>()),
        ("(u8,)", meta_type::<(u8,)>(), TypeId::of::<(u8,)>()),
        ("(u8,u8)", meta_type::<(u8, u8)>(), TypeId::of::<(u8, u8)>()),
        ("[u8]", meta_type::<[u8]>(), TypeId::of::<[u8]>()),
        ("Lsb0", meta_type::<bitvec::order::Lsb0>(), TypeId::of::<bitvec::order::Lsb0>()),
        ("Msb0", meta_type::<bitvec::order::Msb0>(), TypeId::of::<bitvec::order::Msb0>()),
        ("BitVec<u8,Msb0>", meta_type::<bitvec::vec::BitVec<u8, bitvec::order::Msb0>>(), TypeId::of::<bitvec::vec::BitVec<u8, bitvec::order::Msb0>>()),
        ("BitVec<u8,Lsb0>", meta_type::<bitvec::vec::BitVec<u8, bitvec::order::Lsb0>>(), TypeId::of::<bitvec::vec::BitVec<u8, bitvec::order::Lsb0>>()),
        ("Duration", meta_type::<std::time::Duration>(), TypeId::of::<std::time::Duration>()),
        ("(u64,u32)", meta_type::<(u64, u32)>(), TypeId::of::<(u64, u32)>()),
        ("str", meta_type::<str>(), TypeId::of::<str>()),
        ("NonZeroU8", meta_type::<core::num::NonZeroU8>(), TypeId::of::<core::num::NonZeroU8>()),
        ("Duration", meta_type::<std::time::Duration>(), TypeId::of::<std::time::Duration>()),
        ("i8", meta_type::<i8>(), TypeId::of::<i8>()),
        ("char", meta_type::<char>(), TypeId::of::<char>()),
        ("()", meta_type::<()>(), TypeId::of::<()>()),
    ];
    let h = |m: &MetaType| {
        let mut s = std::collections::hash_map::DefaultHasher::new();
        m.hash(&mut s);
        s.finish()
    };
    for (na, a, ia) in &ids {
        ensure!(a.type_id() == *ia, "{}: type_id() is not the declared identity", na);
        for (nb, b, ib) in &ids {
            st.cases += 1;
            if ia == ib && na != nb {
                st.nontrivial += 1;
            }
            ensure!((a == b) == (ia == ib), "MetaType eq of {} and {} is {}", na, nb, a == b);
            ensure!((a.cmp(b) == std::cmp::Ordering::Equal) == (ia == ib) && a.cmp(b) == ia.cmp(ib) && a.partial_cmp(b) == Some(a.cmp(b)), "MetaType order of {} and {} inconsistent", na, nb);
            if ia == ib {
                ensure!(h(a) == h(b), "equal MetaTypes {} and {} hash differently", na, nb);
                ensure!(a.type_info() == b.type_info(), "types {} and {} declare the same identity but return different definitions", na, nb);
            }
        }
    }
    Ok(())
}

// ------------------------------------------------------------------------------------------------
// C17: builders lossless / order preserving; PhantomData erased; docs gating

// every order of the field / variant builder calls yields the same field / variant (no call clobbers what another one set)
macro_rules! bcall {
    ($f:ident name) => { $f.name("n") };
    ($f:ident ty) => { $f.ty::<Vec<u8>>() };
    ($f:ident compact) => { $f.compact::<u32>() };
    ($f:ident type_name) => { $f.type_name("Vec<u8>") };
    ($f:ident docs_always) => { $f.docs_always(&["d1", "d2"]) };
    ($f:ident index) => { $f.index(77) };
    ($f:ident fields) => { $f.fields(Fields::unnamed().field(|f| f.ty::<u8>())) };
    ($f:ident discriminant) => { $f.discriminant(5) };
}
macro_rules! order_case {
    ($st:ident, [$($m:ident),*]) => {{
        $st.cases += 1;
        $st.nontrivial += 1;
        let c = Fields::named().field(|f| { $( let f = bcall!(f $m); )* f });
        let got = Type::builder().path(Path::new("O", "m")).composite(c);
        let want = Type::new(Path::from_segments(vec!["m", "O"]).unwrap(), vec![], TypeDefComposite::new(vec![Field::new(Some("n"), meta_type::<Vec<u8>>(), Some("Vec<u8>"), vec!["d1", "d2"])]), vec![]);
        ensure!(got == want, "field builder calls in order {} produced {:?}, expected {:?}", stringify!($($m),*), got, want);
    }};
}
macro_rules! corder_case {
    ($st:ident, [$($m:ident),*]) => {{
        $st.cases += 1;
        $st.nontrivial += 1;
        let c = Fields::named().field(|f| { $( let f = bcall!(f $m); )* f });
        let got = Type::builder().path(Path::new("O", "m")).composite(c);
        let want = Type::new(Path::from_segments(vec!["m", "O"]).unwrap(), vec![], TypeDefComposite::new(vec![Field::new(Some("n"), meta_type::<scale::Compact<u32>>(), Some("Vec<u8>"), vec!["d1", "d2"])]), vec![]);
        ensure!(got == want, "field builder calls in order {} (compact member) produced {:?}, expected {:?}", stringify!($($m),*), got, want);
    }};
}
macro_rules! vorder_case {
    ($st:ident, [$($m:ident),*]) => {{
        $st.cases += 1;
        $st.nontrivial += 1;
        let vs = Variants::new().variant("V", |f| { $( let f = bcall!(f $m); )* f });
        let got = Type::builder().path(Path::new("O", "m")).variant(vs);
        let want = Type::new(Path::from_segments(vec!["m", "O"]).unwrap(), vec![], TypeDefVariant::new(vec![Variant::new("V", vec![Field::new(None, meta_type::<u8>(), None, vec![])], 77, vec!["d1", "d2"])]), vec![]);
        ensure!(got == want, "variant builder calls in order {} produced {:?}, expected {:?}", stringify!($($m),*), got, want);
    }};
}
fn c17_orders(st: &mut Stats) -> Res {
    order_case!(st, [name, ty, type_name, docs_always]);
    order_case!(st, [name, ty, docs_always, type_name]);
    order_case!(st, [name, type_name, ty, docs_always]);
    order_case!(st, [name, type_name, docs_always, ty]);
    order_case!(st, [name, docs_always, ty, type_name]);
    order_case!(st, [name, docs_always, type_name, ty]);
    order_case!(st, [ty, name, type_name, docs_always]);
    order_case!(st, [ty, name, docs_always, type_name]);
    order_case!(st, [ty, type_name, name, docs_always]);
    order_case!(st, [ty, type_name, docs_always, name]);
    order_case!(st, [ty, docs_always, name, type_name]);
    order_case!(st, [ty, docs_always, type_name, name]);
    order_case!(st, [type_name, name, ty, docs_always]);
    order_case!(st, [type_name, name, docs_always, ty]);
    order_case!(st, [type_name, ty, name, docs_always]);
    order_case!(st, [type_name, ty, docs_always, name]);
    order_case!(st, [type_name, docs_always, name, ty]);
    order_case!(st, [type_name, docs_always, ty, name]);
    order_case!(st, [docs_always, name, ty, type_name]);
    order_case!(st, [docs_always, name, type_name, ty]);
    order_case!(st, [docs_always, ty, name, type_name]);
    order_case!(st, [docs_always, ty, type_name, name]);
    order_case!(st, [docs_always, type_name, name, ty]);
    order_case!(st, [docs_always, type_name, ty, name]);
    corder_case!(st, [name, compact, type_name, docs_always]);
    corder_case!(st, [name, compact, docs_always, type_name]);
    corder_case!(st, [name, type_name, compact, docs_always]);
    corder_case!(st, [name, type_name, docs_always, compact]);
    corder_case!(st, [name, docs_always, compact, type_name]);
    corder_case!(st, [name, docs_always, type_name, compact]);
    corder_case!(st, [compact, name, type_name, docs_always]);
    corder_case!(st, [compact, name, docs_always, type_name]);
    corder_case!(st, [compact, type_name, name, docs_always]);
    corder_case!(st, [compact, type_name, docs_always, name]);
    corder_case!(st, [compact, docs_always, name, type_name]);
    corder_case!(st, [compact, docs_always, type_name, name]);
    corder_case!(st, [type_name, name, compact, docs_always]);
    corder_case!(st, [type_name, name, docs_always, compact]);
    corder_case!(st, [type_name, compact, name, docs_always]);
    corder_case!(st, [type_name, compact, docs_always, name]);
    corder_case!(st, [type_name, docs_always, name, compact]);
    corder_case!(st, [type_name, docs_always, compact, name]);
    corder_case!(st, [docs_always, name, compact, type_name]);
    corder_case!(st, [docs_always, name, type_name, compact]);
    corder_case!(st, [docs_always, compact, name, type_name]);
    corder_case!(st, [docs_always, compact, type_name, name]);
    corder_case!(st, [docs_always, type_name, name, compact]);
    corder_case!(st, [docs_always, type_name, compact, name]);
    vorder_case!(st, [index, fields, docs_always, discriminant]);
    vorder_case!(st, [index, fields, discriminant, docs_always]);
    vorder_case!(st, [index, docs_always, fields, discriminant]);
    vorder_case!(st, [index, docs_always, discriminant, fields]);
    vorder_case!(st, [index, discriminant, fields, docs_always]);
    vorder_case!(st, [index, discriminant, docs_always, fields]);
    vorder_case!(st, [fields, index, docs_always, discriminant]);
    vorder_case!(st, [fields, index, discriminant, docs_always]);
    vorder_case!(st, [fields, docs_always, index, discriminant]);
    vorder_case!(st, [fields, docs_always, discriminant, index]);
    vorder_case!(st, [fields, discriminant, index, docs_always]);
    vorder_case!(st, [fields, discriminant, docs_always, index]);
    vorder_case!(st, [docs_always, index, fields, discriminant]);
    vorder_case!(st, [docs_always, index, discriminant, fields]);
    vorder_case!(st, [docs_always, fields, index, discriminant]);
    vorder_case!(st, [docs_always, fields, discriminant, index]);
    vorder_case!(st, [docs_always, discriminant, index, fields]);
    vorder_case!(st, [docs_always, discriminant, fields, index]);
    vorder_case!(st, [discriminant, index, fields, docs_always]);
    vorder_case!(st, [discriminant, index, docs_always, fields]);
    vorder_case!(st, [discriminant, fields, index, docs_always]);
    vorder_case!(st, [discriminant, fields, docs_always, index]);
    vorder_case!(st, [discriminant, docs_always, index, fields]);
    vorder_case!(st, [discriminant, docs_always, fields, index]);
    Ok(())
}

fn c17(st: &mut Stats, _max: u32) -> Res {
    c17_orders(st)?;
    let docs_on = cfg!(feature = "docs");
    // field kinds: 0 = u8 named, 1 = PhantomData<u8>, 2 = Vec<u8> with type name + gated docs, 3 = bool with always-docs
    for a in 0..4 {
        for b in 0..4 {
            for c in 0..4 {
                st.cases += 1;
                if [a, b, c].contains(&1) {
                    st.nontrivial += 1;
                }
                let mut fb = Fields::named();
                let mut want: Vec<Field<MetaForm>> = Vec::new();
                for (pos, k) in [a, b, c].iter().enumerate() {
                    let name: &'static str = ["x", "y", "z"][pos];
                    match k {
                        0 => {
                            fb = fb.field(|f| f.ty::<u8>().name(name));
                            want.push(Field::new(Some(name), meta_type::<u8>(), None, vec![]));
                        }
                        1 => fb = fb.field(|f| f.name(name).ty::<PhantomData<u8>>().type_name("PhantomData<u8>")),
                        2 => {
                            fb = fb.field(|f| f.name(name).ty::<Vec<u8>>().type_name("Vec<u8>").docs(&["gated"]));
                            want.push(Field::new(Some(name), meta_type::<Vec<u8>>(), Some("Vec<u8>"), if docs_on { vec!["gated"] } else { vec![] }));
                        }
                        _ => {
                            fb = fb.field(|f| f.docs_always(&["always", "two"]).ty::<bool>().name(name));
                            want.push(Field::new(Some(name), meta_type::<bool>(), None, vec!["always", "two"]));
                        }
                    }
                }
                let params = vec![TypeParameter::new("T", Some(meta_type::<u8>())), TypeParameter::new("U", None)];
                let ty = Type::builder().path(Path::new("S", "m::n")).type_params(params.clone()).docs(&["td"]).composite(fb);
                let exp = Type::new(Path::from_segments(vec!["m", "n", "S"]).unwrap(), params.clone(), TypeDefComposite::new(want.clone()), if docs_on { vec!["td"] } else { vec![] });
                ensure!(ty == exp, "composite builder with field kinds {:?} produced {:?}, expected {:?}", [a, b, c], ty, exp);
                // the same fields inside variants, unnamed, plus indices / discriminant / docs
                let kinds = [a, b, c];
                let ub = move || {
                    let mut ub = Fields::unnamed();
                    for k in kinds {
                        ub = match k {
                            0 => ub.field(|f| f.ty::<u8>()),
                            1 => ub.field(|f| f.ty::<PhantomData<String>>()),
                            2 => ub.field(|f| f.ty::<Vec<u8>>().type_name("Vec<u8>")),
                            _ => ub.field(|f| f.compact::<u32>().docs_always(&["c"])),
                        };
                    }
                    ub
                };
                let mut uw: Vec<Field<MetaForm>> = Vec::new();
                for k in kinds {
                    match k {
                        0 => uw.push(Field::new(None, meta_type::<u8>(), None, vec![])),
                        1 => {}
                        2 => uw.push(Field::new(None, meta_type::<Vec<u8>>(), Some("Vec<u8>"), vec![])),
                        _ => uw.push(Field::new(None, meta_type::<scale::Compact<u32>>(), None, vec!["c"])),
                    }
                }
                let vs = Variants::new()
                    .variant("A", |v| v.index(a as u8 + 7).fields(ub()).docs_always(&["va"]).discriminant(9))
                    .variant_unit("B", 200)
                    .variant("C", |v| v.docs(&["gated"]).index(0));
                let vt = Type::builder().path(Path::new("E", "m")).variant(vs);
                let ev = Type::new(
                    Path::from_segments(vec!["m", "E"]).unwrap(),
                    vec![],
                    TypeDefVariant::new(vec![
                        Variant::new("A", uw.clone(), a as u8 + 7, vec!["va"]),
                        Variant::new("B", vec![], 200, vec![]),
                        Variant::new("C", vec![], 0, if docs_on { vec!["gated"] } else { vec![] }),
                    ]),
                    vec![],
                );
                ensure!(vt == ev, "variant builder with field kinds {:?} produced {:?}, expected {:?}", [a, b, c], vt, ev);
                // tuples
                let members: Vec<MetaType> = [a, b, c].iter().map(|k| [meta_type::<u8>(), meta_type::<PhantomData<u8>>(), meta_type::<Vec<u8>>(), meta_type::<bool>()][*k]).collect();
                let tw: Vec<MetaType> = members.iter().cloned().filter(|m| *m != meta_type::<PhantomData<()>>()).collect();
                ensure!(TypeDefTuple::new(members.clone()).fields == tw, "TypeDefTuple::new({:?}) kept {:?}", [a, b, c], TypeDefTuple::new(members).fields);
            }
        }
    }
    // type-level docs_always and the portable-form builders
    let t = Type::builder().path(Path::new("D", "m")).docs_always(&["x", "y"]).composite(Fields::unit());
    ensure!(t.docs == vec!["x", "y"], "TypeBuilder::docs_always lost docs: {:?}", t.docs);
    let pf = Fields::<PortableForm>::named().field_portable(|f| f.name("a".into()).ty(3u32).type_name("T".into())).field_portable(|f| f.ty(1u32).name("b".into()));
    let pt = Type::builder_portable().path(Path::from_segments_unchecked(vec!["p".to_string()])).type_params(vec![TypeParameter::new_portable("T".into(), Some(sym(5)))]).composite(pf);
    let pe = ptype(&["p"], vec![("T", Some(5))], TypeDef::Composite(TypeDefComposite { fields: vec![pfield(Some("a"), 3, Some("T"), &[]), pfield(Some("b"), 1, None, &[])] }), &[]);
    ensure!(pt == pe, "portable builder produced {:?}, expected {:?}", pt, pe);
    // built-in impls never list PhantomData members
    let tup = <(u8, PhantomData<bool>, u16) as TypeInfo>::type_info();
    ensure!(matches!(&tup.type_def, TypeDef::Tuple(t) if t.fields == vec![meta_type::<u8>(), meta_type::<u16>()]), "tuple impl lists a PhantomData member: {:?}", tup);
    Ok(())
}

// ------------------------------------------------------------------------------------------------
// C18
fn spec_ident(b: &[u8]) -> bool {
    let body: &[u8] = if b.len() >= 2 && b[0] == b'r' && b[1] == b'#' { &b[2..] } else { b };
    !body.is_empty() && (body[0] == b'_' || body[0].is_ascii_alphabetic()) && body[1..].iter().all(|c| *c == b'_' || c.is_ascii_alphanumeric())
}
fn leak(s: String) -> &'static str {
    Box::leak(s.into_boxed_str())
}
fn c18(st: &mut Stats, max: u32) -> Res {
    // class representatives: letters, digit, underscore, the raw-prefix characters, and one character from every gap of the
    // ASCII table around the identifier classes (below 0, between 9 and A, between Z and a, above z), plus non-ASCII
    let alphabet = ["a", "Z", "_", "7", "r", "#", ":", " ", "é", "/", "@", "[", "`", "{"];
    let maxlen = max.min(5) as usize;
    let mut words: Vec<&'static str> = vec![""];
    let mut frontier = vec![String::new()];
    for _ in 0..maxlen {
        let mut next = Vec::new();
        for w in &frontier {
            for a in &alphabet {
                next.push(format!("{}{}", w, a));
            }
        }
        for w in &next {
            words.push(leak(w.clone()));
        }
        frontier = next;
    }
    // every single ASCII character in head position, tail position, and after the raw prefix (a class test that lets ONE extra
    // character through - `-`, `$`, `.` - is invisible to class representatives)
    for c in 0u8..128 {
        let ch = c as char;
        for w in [format!("{}", ch), format!("a{}", ch), format!("{}a", ch), format!("a{}b", ch), format!("r#{}", ch), format!("r#a{}", ch), format!("_{}_", ch)] {
            words.push(leak(w));
        }
    }
    for w in &words {
        st.cases += 1;
        let want = spec_ident(w.as_bytes());
        if want {
            st.nontrivial += 1;
        }
        let got = Path::from_segments(vec![*w]);
        match (&got, want) {
            (Ok(p), true) => ensure!(p.segments == vec![*w] && p.ident() == Some(*w) && p.namespace().is_empty(), "path from {:?} is {:?}", w, p),
            (Err(scale_info::PathError::InvalidIdentifier { segment: 0 }), false) => {}
            _ => return Err(format!("from_segments([{:?}]) = {:?} but (r#)?[A-Za-z_][A-Za-z0-9_]* says {}", w, got, want)),
        }
    }
    ensure!(Path::from_segments(Vec::<&'static str>::new()) == Err(scale_info::PathError::MissingSegments), "empty segment list not reported as MissingSegments");
    // Path::new / new_with_replace on arbitrary module paths: succeed exactly when every `::`-separated piece and the
    // ident (after replacement) is an identifier - otherwise they must refuse (panic), never drop or invent a segment
    std::panic::set_hook(Box::new(|_| {}));
    let pieces = ["a", "::", ":", "", "r#b", "9", " "];   // a space: `trim`-style "tolerance" must not creep in
    let mut mods: Vec<String> = vec![String::new()];
    let mut fr = vec![String::new()];
    for _ in 0..4 {
        let mut nx = Vec::new();
        for w in &fr {
            for p in &pieces {
                if !p.is_empty() {
                    nx.push(format!("{}{}", w, p));
                }
            }
        }
        mods.extend(nx.iter().cloned());
        fr = nx;
    }
    mods.sort();
    mods.dedup();
    for m in &mods {
        for ident in ["Z", "", "r#r#q", "a::Z", " Z"] {   // an ident is ONE segment: it is never split, trimmed or otherwise interpreted
            // tables incl. chains (the replacement of an earlier entry is the search key of a later one), swaps and duplicate keys:
            // every segment is looked up ONCE, the first matching entry wins, a replacement is never searched again
            for table in [&[][..], &[("a", "X"), ("", "root")][..], &[("9", "nine")][..], &[("a", "Z"), ("Z", "a")][..], &[("a", "r#b"), ("r#b", "9")][..],
                          &[("9", "a"), ("a", "9")][..], &[("a", "X"), ("a", "9")][..]] {
                st.cases += 1;
                let module: &'static str = leak(m.clone());
                // oracle: split on "::" by hand
                let mut parts: Vec<&str> = Vec::new();
                let (mut start, mut i, b) = (0usize, 0usize, module.as_bytes());
                while i < b.len() {
                    if i + 1 < b.len() && b[i] == b':' && b[i + 1] == b':' {
                        parts.push(&module[start..i]);
                        start = i + 2;
                        i += 2;
                    } else {
                        i += 1;
                    }
                }
                parts.push(&module[start..]);
                parts.push(ident);
                let replaced: Vec<&str> = parts.iter().map(|s| table.iter().find(|r| r.0 == *s).map_or(*s, |r| r.1)).collect();
                let ok = replaced.iter().all(|s| spec_ident(s.as_bytes()));
                if !ok {
                    st.nontrivial += 1;
                }
                let got = std::panic::catch_unwind(|| if table.is_empty() { Path::new(ident, module) } else { Path::new_with_replace(ident, module, table) });
                match (got, ok) {
                    (Ok(p), true) => ensure!(p.segments == replaced, "Path::new*({:?}, {:?}, {:?}) = {:?}, expected segments {:?}", ident, module, table, p.segments, replaced),
                    (Err(_), false) => {}
                    (Ok(p), false) => return Err(format!("Path::new*({:?}, {:?}, {:?}) returned {:?} although {:?} is not a list of identifiers", ident, module, table, p.segments, replaced)),
                    (Err(_), true) => return Err(format!("Path::new*({:?}, {:?}, {:?}) refused although {:?} are all identifiers", ident, module, table, replaced)),
                }
            }
        }
    }
    let _ = std::panic::take_hook();
    // display of long paths: the segments joined by `::`, whatever their number and length (no width, precision or truncation)
    for (n, seglen) in [(1usize, 1usize), (1, 200), (12, 7), (40, 3), (3, 90)] {
        st.cases += 1;
        let segs: Vec<&'static str> = (0..n).map(|k| leak(format!("s{}{}", k, "x".repeat(seglen)))).collect();
        let port = Path::from_segments(segs.clone()).map_err(|e| format!("{:?}", e))?.into_portable(&mut Registry::new());
        ensure!(port.to_string() == segs.join("::"), "display of a path of {} segments of ~{} characters is {:?}", n, seglen, port.to_string());
    }
    // segment lists: first offending position, order, ident, namespace, display
    let segs = ["a", "r#b", "_", "1", "", "r#", "r#r#c", "Zz9"];
    for i in 0..segs.len() {
        for j in 0..segs.len() {
            for k in 0..segs.len() {
                st.cases += 1;
                let l = vec![segs[i], segs[j], segs[k]];
                let bad = l.iter().position(|s| !spec_ident(s.as_bytes()));
                match (Path::from_segments(l.clone()), bad) {
                    (Ok(p), None) => {
                        st.nontrivial += 1;
                        ensure!(p.segments == l && p.ident() == Some(l[2]) && p.namespace() == &l[..2], "path from {:?}: {:?} ident {:?} namespace {:?}", l, p, p.ident(), p.namespace());
                        let port = p.clone().into_portable(&mut Registry::new());
                        ensure!(port.to_string() == l.join("::"), "display of {:?} is {:?}", l, port.to_string());
                        ensure!(port.ident().as_deref() == Some(l[2]) && port.namespace().len() == 2, "portable ident/namespace of {:?}", l);
                        // module path + ident, with and without replacement
                        let module = leak(format!("{}::{}", l[0], l[1]));
                        ensure!(Path::new(l[2], module) == p, "Path::new({:?}, {:?}) != from_segments", l[2], module);
                        let rep = Path::new_with_replace(l[2], module, &[(l[1], "X"), ("nomatch", "Y")]);
                        let exp: Vec<&str> = l.iter().map(|s| if *s == l[1] { "X" } else { *s }).collect();
                        ensure!(rep.segments == exp, "new_with_replace({:?}) with {:?}->X gave {:?}", l, l[1], rep.segments);
                    }
                    (Err(scale_info::PathError::InvalidIdentifier { segment }), Some(b)) => ensure!(segment == b, "from_segments({:?}) reports segment {} but the first offending one is {}", l, segment, b),
                    (r, b) => return Err(format!("from_segments({:?}) = {:?}, first offending segment {:?}", l, r, b)),
                }
            }
        }
    }
    Ok(())
}

// ------------------------------------------------------------------------------------------------
// C06 (encode side): independent encoder written from the published layout
fn compact(out: &mut Vec<u8>, v: u32) {
    if v < 1 << 6 {
        out.push((v as u8) << 2)
    } else if v < 1 << 14 {
        out.extend_from_slice(&(((v as u16) << 2) | 1).to_le_bytes())
    } else if v < 1 << 30 {
        out.extend_from_slice(&((v << 2) | 2).to_le_bytes())
    } else {
        out.push(3);
        out.extend_from_slice(&v.to_le_bytes())
    }
}
fn e_str(o: &mut Vec<u8>, s: &str) {
    compact(o, s.len() as u32);
    o.extend_from_slice(s.as_bytes())
}
fn e_strs(o: &mut Vec<u8>, v: &[String]) {
    compact(o, v.len() as u32);
    v.iter().for_each(|s| e_str(o, s))
}
fn e_ostr(o: &mut Vec<u8>, s: &Option<String>) {
    match s {
        None => o.push(0),
        Some(x) => {
            o.push(1);
            e_str(o, x)
        }
    }
}
fn e_fields(o: &mut Vec<u8>, fs: &[Field<PortableForm>]) {
    compact(o, fs.len() as u32);
    for f in fs {
        e_ostr(o, &f.name);
        compact(o, f.ty.id);
        e_ostr(o, &f.type_name);
        e_strs(o, &f.docs);
    }
}
fn e_type(o: &mut Vec<u8>, t: &PT) {
    e_strs(o, &t.path.segments);
    compact(o, t.type_params.len() as u32);
    for p in &t.type_params {
        e_str(o, &p.name);
        match &p.ty {
            None => o.push(0),
            Some(s) => {
                o.push(1);
                compact(o, s.id)
            }
        }
    }
    match &t.type_def {
        TypeDef::Composite(c) => {
            o.push(0);
            e_fields(o, &c.fields)
        }
        TypeDef::Variant(v) => {
            o.push(1);
            compact(o, v.variants.len() as u32);
            for x in &v.variants {
                e_str(o, &x.name);
                e_fields(o, &x.fields);
                o.push(x.index);
                e_strs(o, &x.docs);
            }
        }
        TypeDef::Sequence(s) => {
            o.push(2);
            compact(o, s.type_param.id)
        }
        TypeDef::Array(a) => {
            o.push(3);
            o.extend_from_slice(&a.len.to_le_bytes());
            compact(o, a.type_param.id)
        }
        TypeDef::Tuple(t) => {
            o.push(4);
            compact(o, t.fields.len() as u32);
            t.fields.iter().for_each(|s| compact(o, s.id))
        }
        TypeDef::Primitive(p) => {
            o.push(5);
            let all = [
                TypeDefPrimitive::Bool, TypeDefPrimitive::Char, TypeDefPrimitive::Str, TypeDefPrimitive::U8, TypeDefPrimitive::U16, TypeDefPrimitive::U32,
                TypeDefPrimitive::U64, TypeDefPrimitive::U128, TypeDefPrimitive::U256, TypeDefPrimitive::I8, TypeDefPrimitive::I16, TypeDefPrimitive::I32,
                TypeDefPrimitive::I64, TypeDefPrimitive::I128, TypeDefPrimitive::I256,
            ];
            o.push(all.iter().position(|x| x == p).unwrap() as u8)
        }
        TypeDef::Compact(c) => {
            o.push(6);
            compact(o, c.type_param.id)
        }
        TypeDef::BitSequence(b) => {
            o.push(7);
            compact(o, b.bit_store_type.id);
            compact(o, b.bit_order_type.id)
        }
    }
    e_strs(o, &t.docs);
}
fn c06(st: &mut Stats, _max: u32) -> Res {
    let big = [0u32, 63, 64, 16383, 16384, (1 << 30) - 1, 1 << 30, u32::MAX];
    let mut types: Vec<PT> = shapes(2);
    for (i, a) in big.iter().enumerate() {
        let b = big[(i + 3) % big.len()];
        types.push(ptype(&["ü", ""], vec![("T", Some(*a)), ("Ü", None)], TypeDef::Array(TypeDefArray { len: b, type_param: sym(*a) }), &["", "long doc line ✓"]));
        types.push(ptype(&[], vec![], TypeDef::BitSequence(TypeDefBitSequence::new_portable(sym(*a), sym(b))), &[]));
        types.push(ptype(&["x"], vec![], TypeDef::Variant(TypeDefVariant { variants: vec![Variant { name: "V".into(), fields: vec![pfield(Some("n"), *a, Some("tn"), &["d1", "d2"]), pfield(None, b, None, &[])], index: (i * 37) as u8, docs: vec!["vd".into()] }] }), &[]));
        types.push(ptype(&[], vec![], TypeDef::Tuple(TypeDefTuple { fields: vec![sym(*a), sym(b), sym(1)] }), &[]));
    }
    for p in [TypeDefPrimitive::Bool, TypeDefPrimitive::Char, TypeDefPrimitive::Str, TypeDefPrimitive::U8, TypeDefPrimitive::U16, TypeDefPrimitive::U32, TypeDefPrimitive::U64, TypeDefPrimitive::U128, TypeDefPrimitive::U256, TypeDefPrimitive::I8, TypeDefPrimitive::I16, TypeDefPrimitive::I32, TypeDefPrimitive::I64, TypeDefPrimitive::I128, TypeDefPrimitive::I256] {
        types.push(ptype(&[], vec![], TypeDef::Primitive(p), &[]));
    }
    for (i, t) in types.iter().enumerate() {
        st.cases += 1;
        st.nontrivial += 1;
        let mut want = Vec::new();
        e_type(&mut want, t);
        ensure!(t.encode() == want, "type {:?} encodes as {:?}, layout says {:?}", t, t.encode(), want);
        let reg = PortableRegistry { types: vec![PortableType { id: big[i % big.len()], ty: t.clone() }, PortableType { id: i as u32, ty: types[(i + 1) % types.len()].clone() }] };
        let mut w2 = Vec::new();
        compact(&mut w2, 2);
        for e in &reg.types {
            compact(&mut w2, e.id);
            e_type(&mut w2, &e.ty);
        }
        ensure!(reg.encode() == w2, "registry {:?} encodes as {:?}, layout says {:?}", reg, reg.encode(), w2);
    }
    Ok(())
}

// ------------------------------------------------------------------------------------------------
// C07: round trip / exact consumption / injectivity on enumerated registries; C14: corrupted encodings
fn small_registries() -> Vec<PortableRegistry> {
    let mut regs = vec![PortableRegistry { types: vec![] }];
    let sh = shapes(2);
    for (i, a) in sh.iter().enumerate() {
        regs.push(PortableRegistry { types: vec![PortableType { id: i as u32 * 1000, ty: a.clone() }] });
        let b = &sh[(i * 7 + 3) % sh.len()];
        regs.push(PortableRegistry { types: vec![PortableType { id: 0, ty: a.clone() }, PortableType { id: u32::MAX - i as u32, ty: b.clone() }] });
    }
    // ids out of order, repeated, and not equal to the position (hand-built registries are in scope of C07 / C14)
    regs.push(PortableRegistry { types: vec![PortableType { id: 9, ty: sh[1].clone() }, PortableType { id: 2, ty: sh[2].clone() }, PortableType { id: 5, ty: sh[0].clone() }] });
    regs.push(PortableRegistry { types: vec![PortableType { id: 2, ty: sh[0].clone() }, PortableType { id: 1, ty: sh[1].clone() }, PortableType { id: 0, ty: sh[2].clone() }] });
    regs.push(PortableRegistry { types: vec![PortableType { id: 3, ty: sh[3].clone() }, PortableType { id: 3, ty: sh[4].clone() }] });
    // collection sizes around the compact-length and u8 boundaries: enums with 63 / 64 / 255 / 256 / 300 variants, 70 fields, 300 docs
    for n in [63usize, 64, 255, 256, 300] {
        let variants = (0..n).map(|k| Variant { name: format!("V{}", k), fields: vec![], index: k as u8, docs: vec![] }).collect();
        regs.push(PortableRegistry { types: vec![PortableType { id: n as u32, ty: ptype(&["Big"], vec![], TypeDef::Variant(TypeDefVariant { variants }), &[]) }] });
    }
    let fields = (0..70u32).map(|k| pfield(None, k, None, &[])).collect();
    let docs: Vec<String> = (0..300).map(|k| format!("line {}", k)).collect();
    let docs_ref: Vec<&str> = docs.iter().map(|d| d.as_str()).collect();
    regs.push(PortableRegistry { types: vec![PortableType { id: 0, ty: ptype(&["Wide"], vec![], TypeDef::Composite(TypeDefComposite { fields }), &docs_ref) }] });
    regs.push(PortableRegistry { types: vec![PortableType { id: 0, ty: ptype(&[], vec![], TypeDef::Tuple(TypeDefTuple { fields: (0..16500u32).map(sym).collect() }), &[]) }] });
    regs.push(PortableRegistry { types: vec![PortableType { id: 1 << 30, ty: ptype(&["ü", ""], vec![("T", Some(1 << 14)), ("Ü", None)], TypeDef::Primitive(TypeDefPrimitive::I256), &["", "long doc line ✓"]) }] });
    // MANY entries: table lengths around the compact-length boundaries and round numbers an implementation might cap at
    // (64, 4096 / 4097, 16383 / 16384, 65536 / 65537)
    for n in [64u32, 4096, 4097, 16384, 65537] {
        regs.push(PortableRegistry { types: (0..n).map(|i| PortableType { id: i, ty: ptype(&[], vec![], TypeDef::Primitive(if i % 2 == 0 { TypeDefPrimitive::U8 } else { TypeDefPrimitive::Bool }), &[]) }).collect() });
    }
    regs
}
/// Debug text of a value, cut to a readable length (registries of thousands of entries are in the pools)
fn brief<T: std::fmt::Debug>(t: &T) -> String {
    let s = format!("{:?}", t);
    if s.chars().count() > 1500 {
        format!("{} ... ({} characters in all)", s.chars().take(1500).collect::<String>(), s.chars().count())
    } else {
        s
    }
}
fn c07(st: &mut Stats, _max: u32) -> Res {
    let regs = small_registries();
    let mut seen: BTreeMap<Vec<u8>, usize> = BTreeMap::new();
    for (i, r) in regs.iter().enumerate() {
        st.cases += 1;
        st.nontrivial += 1;
        let bytes = r.encode();
        ensure!(bytes == r.encode(), "encoding is not deterministic for {}", brief(r));
        let mut input = &bytes[..];
        let back = PortableRegistry::decode(&mut input);
        ensure!(back.as_ref().ok() == Some(r) && input.is_empty(), "decode(encode(r)) = {} ({} entries) leaving {} bytes, r = {} ({} entries)", brief(&back), back.as_ref().map(|b| b.types.len()).unwrap_or(0), input.len(), brief(r), r.types.len());
        let mut with_tail = bytes.clone();
        with_tail.extend_from_slice(&[0xAA, 0x00, 0xFF]);
        let mut input = &with_tail[..];
        let back = PortableRegistry::decode(&mut input);
        ensure!(back.as_ref().ok() == Some(r) && input == &[0xAA, 0x00, 0xFF][..], "decode does not consume exactly the encoding of {} ({} entries)", brief(r), r.types.len());
        if let Some(j) = seen.insert(bytes, i) {
            ensure!(regs[j] == *r, "two different registries share an encoding: {} and {}", brief(&regs[j]), brief(r));
        }
    }
    Ok(())
}
fn c14_decode(st: &mut Stats) -> Res {
    std::panic::set_hook(Box::new(|_| {}));
    for (k, r) in small_registries().iter().enumerate() {
        let bytes = r.encode();
        let ascending = r.types.windows(2).all(|w| w[0].id < w[1].id);
        // the uncorrupted encoding of every registry; corruptions of the short ones (every 5th, and all with unordered ids)
        let mut variants: Vec<Vec<u8>> = vec![bytes.clone()];
        if bytes.len() > 200 || (k % 5 != 0 && ascending) {
            variants.push(bytes[..bytes.len() - 1].to_vec());
        } else {
        for cut in 0..bytes.len() {
            variants.push(bytes[..cut].to_vec());
        }
        for pos in 0..bytes.len() {
            for bit in [0u8, 1, 7] {
                let mut v = bytes.clone();
                v[pos] ^= 1 << bit;
                variants.push(v);
            }
            let mut v = bytes.clone();
            v.insert(pos, 0xFF);
            variants.push(v);
        }
        }
        for v in variants {
            st.cases += 1;
            let res = std::panic::catch_unwind(|| {
                let mut input = &v[..];
                let d = PortableRegistry::decode(&mut input);
                (d, v.len() - input.len())
            });
            match res {
                Err(_) => return Err(format!("decoding {} panicked", brief(&v))),
                Ok((Ok(w), used)) => {
                    st.nontrivial += 1;
                    ensure!(w.encode() == v[..used], "decoded {} ({} entries) from {} but it re-encodes to {} ({} bytes), not to the {} bytes consumed", brief(&w), w.types.len(), brief(&v), brief(&w.encode()), w.encode().len(), used);
                }
                Ok((Err(_), _)) => {}
            }
        }
    }
    let _ = std::panic::take_hook();
    Ok(())
}

/// C14 "uses memory proportional to the input": length fields corrupted to huge values.  Every byte position of the encodings of
/// the small registries is overwritten with the compact encoding of 100 000, of 2^30 - 1 and of u32::MAX (smallest first, so that
/// an implementation that pre-allocates from an untrusted length is reported before it can exhaust memory); decoding must not
/// request a single allocation larger than 1 MiB + 1024 bytes per input byte (bounded check; the constant is generous on purpose).
fn c14_memory(st: &mut Stats) -> Res {
    let huge: [&[u8]; 3] = [&[0x82, 0x1a, 0x06, 0x00], &[0xfe, 0xff, 0xff, 0xff], &[0x03, 0xff, 0xff, 0xff, 0xff]];
    for r in small_registries().iter() {
        let bytes = r.encode();
        if bytes.len() > 120 {
            continue;
        }
        for h in huge.iter() {
            for pos in 0..bytes.len() {
                let mut v = bytes[..pos].to_vec();
                v.extend_from_slice(h);
                v.extend_from_slice(&bytes[pos + 1..]);
                st.cases += 1;
                let (res, req) = max_request(|| {
                    let mut input = &v[..];
                    PortableRegistry::decode(&mut input).is_ok()
                });
                if !res {
                    st.nontrivial += 1;
                }
                let budget = (1usize << 20) + 1024 * v.len();
                ensure!(req <= budget, "decoding the {} bytes {:?} requested a single allocation of {} bytes (budget {}): memory is not proportional to the input", v.len(), v, req, budget);
            }
        }
    }
    Ok(())
}

// ------------------------------------------------------------------------------------------------
// C08: documented JSON shape (independent builder) and JSON round trip, on enumerated registries
#[cfg(feature = "json")]
mod json_oracle {
    use super::*;
    use serde_json::{json, Map, Value};
    fn strs(v: &[String]) -> Value {
        Value::Array(v.iter().map(|s| Value::String(s.clone())).collect())
    }
    fn j_field(f: &Field<PortableForm>) -> Value {
        let mut m = Map::new();
        if let Some(n) = &f.name {
            m.insert("name".into(), json!(n));
        }
        m.insert("type".into(), json!(f.ty.id));
        if let Some(n) = &f.type_name {
            m.insert("typeName".into(), json!(n));
        }
        if !f.docs.is_empty() {
            m.insert("docs".into(), strs(&f.docs));
        }
        Value::Object(m)
    }
    fn j_fields(m: &mut Map<String, Value>, fs: &[Field<PortableForm>]) {
        if !fs.is_empty() {
            m.insert("fields".into(), Value::Array(fs.iter().map(j_field).collect()));
        }
    }
    fn j_def(d: &TypeDef<PortableForm>) -> Value {
        let (tag, v) = match d {
            TypeDef::Composite(c) => {
                let mut m = Map::new();
                j_fields(&mut m, &c.fields);
                ("composite", Value::Object(m))
            }
            TypeDef::Variant(v) => {
                let mut m = Map::new();
                if !v.variants.is_empty() {
                    m.insert(
                        "variants".into(),
                        Value::Array(
                            v.variants
                                .iter()
                                .map(|x| {
                                    let mut vm = Map::new();
                                    vm.insert("name".into(), json!(x.name));
                                    j_fields(&mut vm, &x.fields);
                                    vm.insert("index".into(), json!(x.index));
                                    if !x.docs.is_empty() {
                                        vm.insert("docs".into(), strs(&x.docs));
                                    }
                                    Value::Object(vm)
                                })
                                .collect(),
                        ),
                    );
                }
                ("variant", Value::Object(m))
            }
            TypeDef::Sequence(s) => ("sequence", json!({ "type": s.type_param.id })),
            TypeDef::Array(a) => ("array", json!({ "len": a.len, "type": a.type_param.id })),
            TypeDef::Tuple(t) => ("tuple", Value::Array(t.fields.iter().map(|f| json!(f.id)).collect())),
            TypeDef::Primitive(p) => (
                "primitive",
                json!(match p {
                    TypeDefPrimitive::Bool => "bool",
                    TypeDefPrimitive::Char => "char",
                    TypeDefPrimitive::Str => "str",
                    TypeDefPrimitive::U8 => "u8",
                    TypeDefPrimitive::U16 => "u16",
                    TypeDefPrimitive::U32 => "u32",
                    TypeDefPrimitive::U64 => "u64",
                    TypeDefPrimitive::U128 => "u128",
                    TypeDefPrimitive::U256 => "u256",
                    TypeDefPrimitive::I8 => "i8",
                    TypeDefPrimitive::I16 => "i16",
                    TypeDefPrimitive::I32 => "i32",
                    TypeDefPrimitive::I64 => "i64",
                    TypeDefPrimitive::I128 => "i128",
                    TypeDefPrimitive::I256 => "i256",
                }),
            ),
            TypeDef::Compact(c) => ("compact", json!({ "type": c.type_param.id })),
            TypeDef::BitSequence(b) => ("bitsequence", json!({ "bit_store_type": b.bit_store_type.id, "bit_order_type": b.bit_order_type.id })),
        };
        let mut m = Map::new();
        m.insert(tag.into(), v);
        Value::Object(m)
    }
    fn j_type(t: &PT) -> Value {
        let mut m = Map::new();
        if !t.path.segments.is_empty() {
            m.insert("path".into(), strs(&t.path.segments));
        }
        if !t.type_params.is_empty() {
            m.insert("params".into(), Value::Array(t.type_params.iter().map(|p| json!({ "name": p.name, "type": p.ty.map(|s| s.id) })).collect()));
        }
        m.insert("def".into(), j_def(&t.type_def));
        if !t.docs.is_empty() {
            m.insert("docs".into(), strs(&t.docs));
        }
        Value::Object(m)
    }
    pub fn c08(st: &mut Stats) -> Res {
        let mut regs = small_registries();
        // every entry shape once more as a one-entry registry, so that each definition kind is covered with and without its optional members
        for (i, t) in shapes(2).into_iter().enumerate() {
            regs.push(PortableRegistry { types: vec![PortableType { id: i as u32, ty: t }] });
        }
        regs.push(PortableRegistry { types: vec![PortableType { id: 0, ty: ptype(&[], vec![], TypeDef::Composite(TypeDefComposite { fields: vec![pfield(None, 1, None, &[]), pfield(Some("a"), 2, Some("T"), &["d"])] }), &[]) }] });
        regs.push(PortableRegistry { types: vec![PortableType { id: 0, ty: ptype(&[], vec![], TypeDef::Variant(TypeDefVariant { variants: vec![] }), &[]) }] });
        for r in regs.iter() {
            st.cases += 1;
            st.nontrivial += 1;
            let want = json!({ "types": r.types.iter().map(|e| json!({ "id": e.id, "type": j_type(&e.ty) })).collect::<Vec<_>>() });
            let got = serde_json::to_value(r).map_err(|e| format!("to_value failed: {}", e))?;
            ensure!(got == want, "registry {:?} serialises to {} but the documented shape is {}", r, got, want);
            // key order of objects is part of the text form: compare the compact text as well (serde_json::Value keeps insertion order
            // only with the preserve_order feature, so the text of `got` is produced from the real serializer directly)
            let text = serde_json::to_string(r).map_err(|e| format!("to_string failed: {}", e))?;
            let back: PortableRegistry = serde_json::from_str(&text).map_err(|e| format!("from_str({}) failed: {}", text, e))?;
            ensure!(back == *r, "JSON round trip changed the registry: {:?} -> {} -> {:?}", r, text, back);
            let back2: PortableRegistry = serde_json::from_value(got.clone()).map_err(|e| format!("from_value({}) failed: {}", got, e))?;
            ensure!(back2 == *r, "JSON value round trip changed the registry: {:?} -> {:?}", r, back2);
            // the JSON and the SCALE form carry the same information
            let scale_back = PortableRegistry::decode(&mut &r.encode()[..]).map_err(|e| format!("decode failed: {}", e))?;
            ensure!(scale_back == back, "SCALE and JSON round trips disagree for {:?}", r);
        }
        Ok(())
    }
}
// C14 (JSON clause, bounded): corrupted JSON texts never make the deserialiser panic; what it accepts is a registry
#[cfg(feature = "json")]
fn c14_json(st: &mut Stats) -> Res {
    std::panic::set_hook(Box::new(|_| {}));
    let mut regs = small_registries();
    regs.retain(|r| r.encode().len() <= 200);
    for r in regs.iter() {
        let text = serde_json::to_string(r).map_err(|e| e.to_string())?;
        let b = text.as_bytes();
        let mut variants: Vec<Vec<u8>> = Vec::new();
        for cut in 0..b.len() {
            variants.push(b[..cut].to_vec());
        }
        for pos in 0..b.len() {
            for rep in [b'0', b'"', b'{', b'[', b',', b'-', b'e', 0xFFu8, b'n'] {
                let mut v = b.to_vec();
                v[pos] = rep;
                variants.push(v);
            }
            let mut v = b.to_vec();
            v.remove(pos);
            variants.push(v);
            let mut v = b.to_vec();
            v.insert(pos, b'9');
            variants.push(v);
        }
        // huge numbers / deep nesting / duplicate and unknown keys
        variants.push(text.replacen("\"id\":", "\"id\":99999999999999999999", 1).into_bytes());
        variants.push(text.replacen("\"id\":", "\"id\":-1,\"id\":", 1).into_bytes());
        variants.push(text.replacen("{\"types\":", "{\"extra\":[[[[[[[[[[[[[[[[]]]]]]]]]]]]]]]],\"types\":", 1).into_bytes());
        variants.push(format!("{}{}", "[".repeat(5000), "]".repeat(5000)).into_bytes());
        for v in variants {
            st.cases += 1;
            let res = std::panic::catch_unwind(|| serde_json::from_slice::<PortableRegistry>(&v));
            match res {
                Err(_) => return Err(format!("deserialising {:?} panicked", String::from_utf8_lossy(&v))),
                Ok(Ok(w)) => {
                    st.nontrivial += 1;
                    // an accepted text is a registry: it serialises, and that text reads back to the same value
                    let t2 = serde_json::to_string(&w).map_err(|e| e.to_string())?;
                    let w2: PortableRegistry = serde_json::from_str(&t2).map_err(|e| format!("re-reading {} failed: {}", t2, e))?;
                    ensure!(w2 == w, "JSON {} was accepted as {:?} but that value does not survive a JSON round trip", String::from_utf8_lossy(&v), w);
                    let _ = w.resolve(u32::MAX);
                    let _ = w.resolve(w.types.len() as u32);
                }
                Ok(Err(_)) => {}
            }
        }
    }
    let _ = std::panic::take_hook();
    Ok(())
}
#[cfg(not(feature = "json"))]
fn c14_json(_st: &mut Stats) -> Res {
    Ok(())
}

#[cfg(feature = "json")]
fn c08(st: &mut Stats, _max: u32) -> Res {
    json_oracle::c08(st)
}
#[cfg(not(feature = "json"))]
fn c08(_st: &mut Stats, _max: u32) -> Res {
    Err("built without the json feature".into())
}

fn main() {
    let args: Vec<String> = std::env::args().collect();
    let prop = args.get(1).map(|s| s.as_str()).unwrap_or("");
    let max: u32 = args.get(2).and_then(|s| s.parse().ok()).unwrap_or(2);
    let mut st = Stats { cases: 0, nontrivial: 0 };
    let r = match prop {
        "C10" => c10(&mut st, max),
        "C12" => c12(&mut st, max),
        "C14" => c14(&mut st, max).and_then(|_| c14_memory(&mut st)).and_then(|_| c14_decode(&mut st)).and_then(|_| c14_json(&mut st)),
        "C07" => c07(&mut st, max),
        "C01" => registry_histories(&mut st, max).and_then(|_| c10(&mut st, max.min(2))).and_then(|_| c12(&mut st, 3)),
        "C02" => registry_histories(&mut st, max),
        "C05" => registry_histories(&mut st, max).and_then(|_| c16(&mut st, max)),
        "C11" => registry_histories(&mut st, max).and_then(|_| order_independence(&mut st)),
        "C16" => c16(&mut st, max),
        "C17" => c17(&mut st, max),
        "C18" => c18(&mut st, max),
        "C06" => c06(&mut st, max).and_then(|_| c07(&mut st, max)),
        "C08" => c08(&mut st, max),
        _ => {
            eprintln!("usage: verif-witness <C01|C02|C05|C06|C07|C10|C11|C12|C14|C16|C17|C18> [max]");
            std::process::exit(2)
        }
    };
    match r {
        Ok(()) => println!("OK cases={} nontrivial={}", st.cases, st.nontrivial),
        Err(e) => {
            println!("VIOLATION {}", e);
            std::process::exit(1)
        }
    }
}
