use scale_info::Path;
#[test]
fn doubled_raw_prefix_is_rejected() {
    assert!(Path::from_segments(vec!["r#a"]).is_ok());
    assert!(Path::from_segments(vec!["r#r#a"]).is_err(), "r#r#a is not (r#)?[A-Za-z_][A-Za-z0-9_]*");
    assert!(Path::from_segments(vec!["ok", "r#r#r#x1"]).is_err());
}
