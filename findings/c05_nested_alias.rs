use scale_info::{meta_type, MetaType, Registry};
#[test]
fn nested_transparent_wrappers_share_the_id_of_their_target() {
    assert_eq!(MetaType::new::<Box<Vec<u8>>>(), MetaType::new::<Vec<u8>>());
    let mut r = Registry::new();
    let ids: Vec<u32> = vec![
        r.register_type(&meta_type::<Vec<u8>>()).id,
        r.register_type(&meta_type::<Box<Vec<u8>>>()).id,
        r.register_type(&meta_type::<&'static String>()).id,
        r.register_type(&meta_type::<str>()).id,
        r.register_type(&meta_type::<Box<Box<u32>>>()).id,
        r.register_type(&meta_type::<u32>()).id,
    ];
    assert_eq!(ids, vec![0, 0, 2, 2, 3, 3]);
}
