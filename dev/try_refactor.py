#!/usr/bin/env python3
"""false-alarm test: apply a behaviour-preserving refactoring to a scratch copy and run every check; exit 1 from a check is a FALSE ALARM"""
import os, subprocess, sys, shutil
ROOT = os.path.dirname(os.path.dirname(os.path.abspath(__file__)))
sys.path.insert(0, ROOT)
from vf.props import PROPS
scratch = '/root/scratch/refactor-repo-%d' % os.getpid()
bad = 0
for r in sys.argv[1:]:
    subprocess.run(['rsync', '-a', '--delete', '--exclude', 'target', '--exclude', '.git', '/repo/', scratch + '/'], check=True)
    if subprocess.run(['patch', '-p1', '-s', '-i', ROOT + '/refactors/%s.diff' % r], cwd=scratch).returncode:
        print(r, 'patch does not apply'); continue
    for pid in sorted(PROPS):
        env = dict(os.environ, VERIF_REPO=scratch, VERIF_DEV_SKIP_KANI='1')
        p = subprocess.run([ROOT + '/check', pid], env=env, stdout=subprocess.PIPE, stderr=subprocess.STDOUT, text=True)
        tag = {0: 'ok', 1: 'FALSE ALARM', 2: 'undecided'}.get(p.returncode, '?')
        last = [l for l in p.stdout.strip().split('\n') if l.startswith(('UNDECIDED', 'VIOLATION'))][:2]
        print('%-3s %-4s %-11s %s' % (r, pid, tag, ' | '.join(x[:160] for x in last)))
        if p.returncode == 1:
            bad += 1
shutil.rmtree(scratch, ignore_errors=True)
sys.exit(1 if bad else 0)
