#!/usr/bin/env python3
"""record the shape (loops / closures / iterator adaptors / early exits) of every function under contract on the unchanged tree"""
import json, sys
sys.path.insert(0, '/verif')
from vf.verus import build_unit, default_cfg
from vf.props import UNIT_CONFIGS, PROPS
out = {}
allcfg = {u: list(c) for u, c in UNIT_CONFIGS.items()}
for pr in PROPS.values():
    for u, c in pr.get('verus_configs', {}).items():
        allcfg[u] = allcfg.get(u, []) + [x for x in c if x not in allcfg.get(u, [])]
for unit, cfgs in allcfg.items():
    for suffix, feats in cfgs:
        path, ex = build_unit(unit, default_cfg(feats), suffix, outdir='/verif/build/shapes')
        for it in ex.log.items:
            if it['kind'] == 'fn' and 'shape' in it:
                out['%s%s/%s' % (unit, suffix, it['name'])] = it['shape']
json.dump(out, open('/verif/baseline/shapes.json', 'w'), indent=0, sort_keys=True)
print(len(out), 'functions')
