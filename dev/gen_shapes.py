#!/usr/bin/env python3
"""record the shape (loops / closures / iterator adaptors / early exits) of every function under contract on the unchanged tree"""
import json, sys
sys.path.insert(0, '/verif')
from vf.verus import build_unit, default_cfg
from vf.props import UNIT_CONFIGS
out = {}
for unit, cfgs in UNIT_CONFIGS.items():
    for suffix, feats in cfgs:
        path, ex = build_unit(unit, default_cfg(feats), suffix, outdir='/verif/build/shapes')
        for it in ex.log.items:
            if it['kind'] == 'fn' and 'shape' in it:
                out['%s%s/%s' % (unit, suffix, it['name'])] = it['shape']
json.dump(out, open('/verif/baseline/shapes.json', 'w'), indent=0, sort_keys=True)
print(len(out), 'functions')
