#!/usr/bin/env python3
"""record the names of all obligations discharged on the unchanged tree (run after ./check <id> for every id and tier)"""
import json, glob, os, sys
base = {}
bp = '/verif/baseline/obligations.json'
if os.path.exists(bp):
    base = json.load(open(bp))
for f in sorted(glob.glob('/verif/evidence/C*.json')):
    ev = json.load(open(f))
    if ev.get('violations') or ev['coverage'].get('undecided'):
        print('skip', f, '(not clean)'); continue
    base.setdefault(ev['property_id'], {})[ev['tier']] = ev['coverage']['obligation_names']
os.makedirs('/verif/baseline', exist_ok=True)
json.dump(base, open(bp, 'w'), indent=1)
print({k: {t: len(v) for t, v in d.items()} for k, d in base.items()})
