#!/usr/bin/env python3
"""contract adequacy sweep: small syntactic mutants of the functions under contract, one at a time, on a scratch copy; each mutant is run
through the Verus units that extract the mutated file.  A mutant that still verifies (SURVIVED) is either equivalent or shows a contract
that does not pin the behaviour down; `undecided` = the mutant does not type-check / leaves the verifier's reach.
usage: mutation_sweep.py [file ...]      (never touches /repo; prints one line per mutant)"""
import os, re, sys, subprocess, shutil
ROOT = os.path.dirname(os.path.dirname(os.path.abspath(__file__)))
sys.path.insert(0, ROOT)
UNITS = {
    'src/build.rs': [('build', ('std', 'docs')), ('build', ('std',))],
    'src/portable.rs': [('portable', ('std',)), ('retain', ('std',))],
    'src/registry.rs': [('registry', ('std',)), ('portable', ('std',))],
    'src/interner.rs': [('interner', ('std',))],
    'src/meta_type.rs': [('metatype', ('std',))],
    'src/utils.rs': [('path', ('std',))],
    'src/ty/path.rs': [('path', ('std',)), ('registry_impls', ('std',))],
    'src/ty/mod.rs': [('registry_impls', ('std',)), ('build', ('std', 'docs'))],
    'src/ty/fields.rs': [('registry_impls', ('std',)), ('build', ('std', 'docs'))],
    'src/ty/variant.rs': [('registry_impls', ('std',)), ('build', ('std', 'docs'))],
    'src/ty/composite.rs': [('registry_impls', ('std',)), ('build', ('std', 'docs'))],
}
RULES = [
    (r' as u32\b', ' as u16 as u32'), (r' as usize\b', ' as u8 as usize'),
    (r'(?<![<>=!])<(?![<=>])\s', '<= '), (r'<=\s', '< '), (r'(?<![<>=!-])>(?![>=])\s', '>= '), (r'>=\s', '> '),
    (r'==', '!='), (r'!=', '=='), (r'&&', '||'), (r'\|\|', '&&'),
    (r'\bSome\((\w+)\)(?=[,\s)])', 'None'), (r'\btrue\b', 'false'), (r'\bfalse\b', 'true'),
    (r'\+ 1\b', '+ 2'), (r'- 1\b', '- 0'), (r'if !', 'if '), (r'\.is_empty\(\)', '.is_empty() == false'),
    (r'\.is_some\(\)', '.is_none()'), (r'\.is_none\(\)', '.is_some()'),
]
FIELD = re.compile(r'\b(\w+): self\.(\w+),')

def mutants(text):
    body_end = text.index('#[cfg(test)]') if '#[cfg(test)]' in text else len(text)
    out = []
    lines = text[:body_end].split('\n')
    off = 0
    for ln, line in enumerate(lines):
        st = line.strip()
        if not st or st.startswith(('//', '#', 'use ', 'pub use', '*', '/*')):
            off += len(line) + 1
            continue
        decl = re.search(r'\b(impl|fn|struct|enum|trait|type|where)\b|->', st) is not None or st.endswith(',') and '<' in st and '(' not in st
        for rx, rep in RULES:
            if decl and ('<' in rx or '>' in rx):
                continue       # generics, not comparisons
            for m in re.finditer(rx, line):
                new = line[:m.start()] + m.expand(rep) + line[m.end():]
                out.append((ln + 1, line.strip(), new.strip(), text[:off] + new + text[off + len(line):]))
        off += len(line) + 1
    # struct-literal field fed from another field of self (copy-paste slips): `a: self.a,` -> `a: self.<other field used nearby>,`
    for m in FIELD.finditer(text[:body_end]):
        a, b = m.group(1), m.group(2)
        near = text[max(0, m.start() - 300):m.end() + 300]
        for o in sorted(set(x.group(2) for x in FIELD.finditer(near))):
            if o != b:
                new = text[:m.start()] + '%s: self.%s,' % (a, o) + text[m.end():]
                out.append((text.count('\n', 0, m.start()) + 1, m.group(0), '%s: self.%s,' % (a, o), new))
    # the wrong one of two similar fields used: `self.a` -> `self.b` for every other field of self mentioned within 12 lines
    SELF = re.compile(r'\bself\.(\w+)\b(?!\s*\()')
    for m in SELF.finditer(text[:body_end]):
        a = m.group(1)
        lo = text.rfind('\n', 0, m.start())
        for _ in range(12):
            lo = text.rfind('\n', 0, max(lo, 0))
        hi = m.end()
        for _ in range(12):
            k = text.find('\n', hi + 1)
            hi = k if k >= 0 else len(text)
        for o in sorted(set(x.group(1) for x in SELF.finditer(text[max(lo, 0):hi]))):
            if o != a and not FIELD.match(text[text.rfind(' ', 0, m.start() - 2) + 1:m.end() + 1] or ''):
                new = text[:m.start()] + 'self.' + o + text[m.end():]
                line = text[text.rfind('\n', 0, m.start()) + 1:text.find('\n', m.end())]
                out.append((text.count('\n', 0, m.start()) + 1, line.strip(), 'self.%s -> self.%s' % (a, o), new))
    return out

def main():
    from vf.verus import verify_unit, default_cfg
    files = sys.argv[1:] or sorted(UNITS)
    scratch = '/root/scratch/mutsweep-%d' % os.getpid()
    tot = surv = 0
    for f in files:
        subprocess.run(['rsync', '-a', '--delete', '--exclude', 'target', '--exclude', '.git', '/repo/', scratch + '/'], check=True)
        orig = open(os.path.join(scratch, f)).read()
        os.environ['VERIF_REPO'] = scratch
        import importlib, vf.verus, vf.extract
        vf.verus.REPO = scratch
        for ln, before, after, text in mutants(orig):
            open(os.path.join(scratch, f), 'w').write(text)
            verdicts = []
            for unit, feats in UNITS[f]:
                r = verify_unit(unit, default_cfg(feats), outdir=scratch + '-build')
                verdicts.append('%s:%s' % (unit, {'ok': 'ok', 'failed': 'KILLED', 'undecided': 'undecided'}.get(r.status, r.status)))
            tot += 1
            killed = any('KILLED' in v for v in verdicts)
            allok = all(v.endswith(':ok') for v in verdicts)
            tag = 'killed' if killed else ('SURVIVED' if allok else 'undecided')
            if tag == 'SURVIVED':
                surv += 1
            print('%-9s %s:%d  `%s` -> `%s`   %s' % (tag, f, ln, before[:70], after[:70], ' '.join(verdicts)), flush=True)
        open(os.path.join(scratch, f), 'w').write(orig)
    shutil.rmtree(scratch, ignore_errors=True); shutil.rmtree(scratch + '-build', ignore_errors=True)
    print('mutants', tot, 'survived', surv)

if __name__ == '__main__':
    main()
