#!/bin/bash
# run every quick check on /repo (regenerates evidence), then baseline + manifest + schema validation
cd /verif
git -C /repo status --short | grep -q . && { echo "/repo is dirty"; exit 1; }
fail=0
for p in $(python3 -c "import sys; sys.path.insert(0,'/verif'); from vf.props import PROPS; print(' '.join(sorted(PROPS)))"); do
  out=$(./check $p 2>&1); rc=$?
  echo "$out" | tail -1
  [ $rc -ne 0 ] && fail=1
done
dev/gen_baseline.py >/dev/null; dev/gen_manifest.py
python3-vt - <<'PY'
import json,jsonschema,glob
sch=json.load(open('/root/.vp/EVIDENCE.schema.json'))
for f in sorted(glob.glob('/verif/evidence/*.json')):
    jsonschema.validate(json.load(open(f)),sch)
jsonschema.validate(json.load(open('/verif/MANIFEST.json')),json.load(open('/root/.vp/MANIFEST.schema.json')))
print('evidence + manifest valid')
PY
exit $fail
