#!/bin/bash
# usage: try_seed.sh <seed name> <property>...   apply the seeded patch to /repo, run the checks, undo
name=$1; shift
git -C /repo apply /verif/seeded/$name/patch.diff || exit 1
trap 'git -C /repo checkout -- .' EXIT INT TERM PIPE
for p in "$@"; do VERIF_DEV_SKIP_KANI=${SKIPKANI:-1} /verif/check $p 2>&1 | cut -c1-400; echo "rc=${PIPESTATUS[0]}"; done
git -C /repo checkout -- .
git -C /repo status --short
