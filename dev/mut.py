#!/usr/bin/env python3
"""dev helper: apply a textual mutation to a scratch copy of /repo and run one Verus unit on it.
usage: mut.py <unit> <file> <from> <to> [--docs]   (from must occur exactly once unless --all)"""
import sys, os, subprocess, shutil
unit, f, frm, to = sys.argv[1:5]
scratch = '/root/scratch/mrepo'
subprocess.run(['rsync', '-a', '--delete', '--exclude', 'target', '--exclude', '.git', '/repo/', scratch + '/'], check=True)
p = os.path.join(scratch, f)
s = open(p).read()
n = s.count(frm)
if n != 1 and '--all' not in sys.argv:
    sys.exit('pattern occurs %d times' % n)
open(p, 'w').write(s.replace(frm, to))
env = dict(os.environ, VERIF_REPO=scratch)
args = ['python3', '-m', 'vf.verus', unit] + [a for a in sys.argv[5:] if a in ('--docs', '-v')]
r = subprocess.run(args, cwd='/verif', env=env, stdout=subprocess.PIPE, text=True)
for l in r.stdout.split('\n'):
    if l.startswith(('unit', 'verified', '--')):
        print(l[:300])
