#!/usr/bin/env python3
"""dev helper: run the given Kani harnesses one per process (parallel N), print status / time / peak RSS"""
import sys, os, time, resource, subprocess, tempfile, shutil, threading
sys.path.insert(0, '/verif')
from vf import kani as K
from concurrent.futures import ThreadPoolExecutor
names = sys.argv[2:] or list(K.HARNESSES)
jobs = int(sys.argv[1])
scratch = tempfile.mkdtemp(prefix='verif-kani-bench-')
K.prepare(scratch)
out0, _, w, _ = K.run_one(scratch, 'builder_new_is_empty', 900)
print('build+first', round(w, 1), flush=True)
def one(h):
    t0 = time.time()
    out, to, wall, cmd = K.run_one(scratch, h, 2400)
    r = K.parse(out)
    open('/root/scratch/kb-%s.log' % h, 'w').write(out)
    print('%-32s %-10s wall=%6.1fs solver=%6.1fs checks=%s %s' % (h, 'TIMEOUT' if to else r['status'], wall, r.get('solver_s', 0), r.get('checks'), r.get('reason', '')[:150].replace('\n', ' ')), flush=True)
with ThreadPoolExecutor(max_workers=jobs) as ex:
    list(ex.map(one, names))
shutil.rmtree(scratch, ignore_errors=True)
