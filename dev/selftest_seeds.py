#!/usr/bin/env python3
"""machinery self-test: every seeded change must be reported (exit 1) by the checks recorded in its meta.json.
Runs on a scratch copy of /repo (VERIF_REPO), never touches /repo.  usage: selftest_seeds.py [seed ...] [--kani]"""
import json, os, subprocess, sys, shutil, glob
ROOT = os.path.dirname(os.path.dirname(os.path.abspath(__file__)))
seeds = [a for a in sys.argv[1:] if not a.startswith('--')] or sorted(os.listdir(ROOT + '/seeded'))
skip_kani = '--kani' not in sys.argv
scratch = '/root/scratch/selftest-repo-%d' % os.getpid()
bad = 0
for sd in seeds:
    meta = json.load(open(ROOT + '/seeded/%s/meta.json' % sd))
    subprocess.run(['rsync', '-a', '--delete', '--exclude', 'target', '--exclude', '.git', '/repo/', scratch + '/'], check=True)
    r = subprocess.run(['patch', '-p1', '-s', '-i', ROOT + '/seeded/%s/patch.diff' % sd], cwd=scratch)
    if r.returncode:
        print(sd, 'PATCH DOES NOT APPLY'); bad += 1; continue
    for pid in meta['caught_by']:
        env = dict(os.environ, VERIF_REPO=scratch)
        if skip_kani:
            env['VERIF_DEV_SKIP_KANI'] = '1'
        p = subprocess.run([ROOT + '/check', pid], env=env, stdout=subprocess.PIPE, stderr=subprocess.STDOUT, text=True)
        lines = [l for l in p.stdout.split('\n') if l.startswith('VIOLATION')]
        ok = p.returncode == 1 and lines
        obls = []
        for l in lines:
            rp = l.split('replay=')[1].split()[0]
            for x in open(rp):
                if x.startswith('failed obligation:'):
                    obls.append(x.split('`')[1])
        print('%-6s %-4s rc=%d %s %s' % (sd, pid, p.returncode, 'CAUGHT' if ok else 'MISSED', ('; '.join(obls)[:300] if lines else p.stdout.strip().split('\n')[-1][:110])))
        meta.setdefault('detected', {})[pid] = obls
        if not ok:
            bad += 1
    json.dump(meta, open(ROOT + '/seeded/%s/meta.json' % sd, 'w'), indent=1)
shutil.rmtree(scratch, ignore_errors=True)
# the evidence files were overwritten by runs on changed trees: regenerate them on the real tree
print('NOTE: re-run the checks on /repo to regenerate evidence before committing')
sys.exit(1 if bad else 0)
