#!/usr/bin/env python3
"""regenerate MANIFEST.json from vf/props.py (claimed checks) and vf/na.py (not applicable)"""
import json, os, sys
sys.path.insert(0, os.path.join(os.path.dirname(os.path.abspath(__file__)), '..'))
from vf import props as P
from vf.na import NOT_APPLICABLE, NOTES
checks = []
for pid in sorted(P.PROPS):
    c = P.PROPS[pid]
    checks.append(dict(
        property_id=pid,
        quick_cmd='./check %s --tier quick' % pid,
        thorough_cmd='./check %s --tier thorough' % pid,
        evidence_file='/verif/evidence/%s.json' % pid,
        replay_cmd_template='cat {path}',
        engine='contracts',
        level_claimed=dict(category=c['level'], text=c['level_text'], design_ref=c.get('design_ref', 'DESIGN.md §5 ' + pid)),
        level_note=c['level_note'],
        technique=c['technique'],
    ))
m = dict(
    version=1,
    setup_cmd='python3 -c "import compileall,sys; sys.exit(0 if compileall.compile_dir(\'vf\', quiet=1) else 1)" && verus --version >/dev/null',
    hooks=dict(guard='cfg(kani)', enable='no hook is committed to /repo: Kani harness modules and contract attributes are added to a scratch copy of the working tree under cfg(kani) (set only by cargo-kani); Verus units are extracted from the working tree',
               baseline_off_cmd='cd /repo && cargo test --workspace --no-fail-fast --offline', source_commits=[], add_only=True),
    engines=[dict(name='contracts', path='/verif/check', serves_properties=sorted(P.PROPS),
                  kind_free_text='contract-based deductive verification: Verus (SMT, unbounded) on function text extracted mechanically from /repo on every run; Kani/CBMC function contracts and loop-free full-domain harnesses on a scratch copy of the real crate; bounded Kani harnesses only as labelled stand-ins')],
    checks=checks,
    notes=NOTES,
    not_applicable=[dict(property_id=k, reason=v) for k, v in sorted(NOT_APPLICABLE.items()) if k not in P.PROPS],
)
json.dump(m, open(os.path.join(os.path.dirname(os.path.abspath(__file__)), '..', 'MANIFEST.json'), 'w'), indent=1)
print('MANIFEST.json: %d checks, %d not applicable' % (len(checks), len(m['not_applicable'])))
