#!/bin/bash
# usage: confirm_seed.sh <id> [name]  - confirm a seeded change in /tmp/seed-<id> and store it under /verif/seeded/<name>
id=$1; name=${2:-$1}; wt=/tmp/seed-$id; out=/verif/seeded/$name
mkdir -p $out
cd $wt || exit 1
git diff -- src derive > $out/patch.diff
cp test_suite/tests/seed_demo.rs $out/seed_demo.rs
export CARGO_NET_OFFLINE=true
echo "== demo WITH change (must fail)"; cargo test -p scale-info-test-suite --test seed_demo --offline 2>&1 | grep -E "^test result|^test .*(FAILED|ok)$" | tee $out/demo_with.txt
git stash push -q -- src derive
echo "== demo WITHOUT change (must pass)"; cargo test -p scale-info-test-suite --test seed_demo --offline 2>&1 | grep -E "^test result|^test .*(FAILED|ok)$" | tee $out/demo_without.txt
git stash pop -q
echo "== suite WITH change (79 must pass; ui_tests fails at baseline)"; cargo test --workspace --no-fail-fast --offline 2>&1 | grep -E "^test result" | tee $out/suite_with.txt
git status --short
