//! prints two lines: `FULL <hex>` - the SCALE encoding of the registry of a fixed set of types, and `NODOCS <hex>` - the same
//! after every documentation list has been emptied.  Built once per feature set; the driver compares the lines.
#![allow(dead_code)]
use scale::Encode;
use scale_info::{meta_type, PortableRegistry, Registry, TypeDef, TypeInfo};
use std::collections::{BTreeMap, BTreeSet, VecDeque};
use std::marker::PhantomData;

/// A documented struct.
///   Second line, indented.
#[derive(TypeInfo, Encode)]
struct Named<T> {
    /// field doc
    a: u8,
    #[codec(compact)]
    b: u32,
    c: Option<T>,
    p: PhantomData<T>,
}

/// An enum.
#[derive(TypeInfo, Encode)]
enum Shape {
    /// unit
    Unit,
    /// tuple
    Tuple(u8, String),
    #[codec(index = 9)]
    Rec { next: Box<Shape>, all: Vec<Shape> },
}

#[derive(TypeInfo, Encode)]
#[scale_info(skip_type_params(U))]
struct Skip<T, U>(T, PhantomData<U>);

#[derive(TypeInfo, Encode)]
#[scale_info(capture_docs = "always")]
/// always captured
struct Always;

#[derive(TypeInfo, Encode)]
#[scale_info(capture_docs = "never")]
/// never captured
struct Never(bool);

fn hex(b: &[u8]) -> String {
    b.iter().map(|x| format!("{:02x}", x)).collect()
}

fn main() {
    let mut r = Registry::new();
    r.register_types(vec![
        meta_type::<Named<u16>>(),
        meta_type::<Shape>(),
        meta_type::<Skip<u8, Shape>>(),
        meta_type::<Always>(),
        meta_type::<Never>(),
        meta_type::<(u8, i128, bool, char, String)>(),
        meta_type::<str>(),
        meta_type::<[u64; 7]>(),
        meta_type::<Vec<Option<Result<u8, String>>>>(),
        meta_type::<BTreeMap<String, BTreeSet<u32>>>(),
        meta_type::<VecDeque<Box<u8>>>(),
        meta_type::<core::ops::Range<u16>>(),
        meta_type::<core::ops::RangeInclusive<u16>>(),
        meta_type::<core::time::Duration>(),
        meta_type::<core::num::NonZeroU32>(),
        meta_type::<scale::Compact<u64>>(),
        meta_type::<std::borrow::Cow<'static, str>>(),
        meta_type::<PhantomData<u8>>(),
        meta_type::<()>(),
    ]);
    let mut p: PortableRegistry = r.into();
    println!("FULL {}", hex(&p.encode()));
    for t in p.types.iter_mut() {
        t.ty.docs.clear();
        match &mut t.ty.type_def {
            TypeDef::Composite(c) => c.fields.iter_mut().for_each(|f| f.docs.clear()),
            TypeDef::Variant(v) => v.variants.iter_mut().for_each(|x| {
                x.docs.clear();
                x.fields.iter_mut().for_each(|f| f.docs.clear())
            }),
            _ => {}
        }
    }
    println!("NODOCS {}", hex(&p.encode()));
}
